package main

func init() {
	replayGens["proc.(*listener).Serve"] = replayServeEarlyReturn
	replayGens["proc.(*listener).removeConn"] = replayRemoveConnAfterStop
}

// Stop requested before the port is bound: Serve returns on its first select
func replayServeEarlyReturn(rc *ReplayCtx) (string, string, string, bool) {
	if rc.o.Kind != "post" {
		return "", "", "", false
	}
	src := `package proc

import (
	"testing"
	"time"
)

func TestGovcReplayServeEarlyReturn(t *testing.T) {
	l := newListener(t, nil, nil)
	stopped := make(chan struct{})
	l.quitOnce.Do(func() { close(l.quit) }) // what Stop does first
	l.Serve()                                // Serve sees quit before binding and returns
	go func() { l.Stop(); close(stopped) }()
	select {
	case <-stopped:
	case <-time.After(2 * time.Second):
		t.Fatalf("REPLAY-VIOLATION Serve returned without closing the done latch (stop requested before the port was bound): Stop does not return")
	}
}
`
	return "proc", "TestGovcReplayServeEarlyReturn", src, true
}

// a connection that is still open when Stop clears the registry is never counted as destroyed
func replayRemoveConnAfterStop(rc *ReplayCtx) (string, string, string, bool) {
	if rc.o.Kind != "post" {
		return "", "", "", false
	}
	src := `package proc

import (
	"net"
	"testing"
)

func TestGovcReplayRemoveConnAfterStop(t *testing.T) {
	l := newListener(t, nil, nil)
	a, b := net.Pipe()
	defer a.Close()
	defer b.Close()
	if !l.addConn(a) {
		t.Skip("not admitted")
	}
	l.mu.Lock()
	l.conns = nil // what Stop does to the registry
	l.mu.Unlock()
	l.removeConn(a) // the deferred call of handleRawConn when the handler returns
	total, destroyed, active := l.stats.CxTotal.Value(), l.stats.CxDestroyTotal.Value(), l.stats.CxActive.Value()
	if active != 0 || total != destroyed {
		t.Fatalf("REPLAY-VIOLATION after stop the admitted connection is never accounted as destroyed: total=%d destroyed=%d active=%d", total, destroyed, active)
	}
}
`
	return "proc", "TestGovcReplayRemoveConnAfterStop", src, true
}
