package main

import (
	"flag"
	"fmt"
	"os"
	"sort"
	"strings"
	"time"
)

var (
	repoDir = "/repo"
	specDir = "/verif/spec"
)

func main() {
	if len(os.Args) < 2 {
		fmt.Fprintln(os.Stderr, "usage: govc <vc|check|list> ...")
		os.Exit(2)
	}
	switch os.Args[1] {
	case "vc":
		cmdVC(os.Args[2:])
	case "check":
		os.Exit(cmdCheck(os.Args[2:]))
	case "sweep":
		cmdSweep(os.Args[2:])
	case "list":
		cmdList(os.Args[2:])
	default:
		fmt.Fprintln(os.Stderr, "unknown command", os.Args[1])
		os.Exit(2)
	}
}

func loadAll() *Program {
	prog, err := LoadProgram(repoDir, specDir, []string{"./..."})
	if err != nil {
		fmt.Fprintln(os.Stderr, "load:", err)
		os.Exit(3)
	}
	return prog
}

// buildVC creates and runs the VC generator for a contract key.
func buildVC(prog *Program, key string) (*VC, error) {
	fc := prog.cs.Funcs[key]
	fn := prog.funcs[key]
	if fn == nil {
		return nil, fmt.Errorf("CONTRACT-UNRESOLVED %s: no such function in the current tree", key)
	}
	vc := newVC(prog, fn, fc)
	vc.Run()
	// unresolved loop ordinals / call-site assertions
	if fc != nil {
		for i, tr := range fc.Transfers {
			if vc.transferHit[i] == 0 {
				vc.unsupportedf("CONTRACT-UNRESOLVED transfers %s in %s: no such call in the function", tr.Callee, key)
			}
		}
		for i, cp := range fc.CallPres {
			if vc.callPreHit[i] == 0 {
				vc.unsupportedf("CONTRACT-UNRESOLVED callpre %s in %s: no such call in the function", cp.Callee, key)
			}
		}
		// a ghost defined by this contract must be in its modifies list: callers' loop summaries havoc
		// what a callee's modifies names, so an unlisted ghost would be believed unchanged across the call
		for _, gd := range fc.GhostDefs {
			for g := range prog.cs.Ghosts {
				if !wordIn(gd.Src, g) {
					continue
				}
				listed := false
				for _, m := range fc.Modifies {
					if wordIn(m, g) {
						listed = true
					}
				}
				if !listed {
					vc.unsupportedf("CONTRACT-UNRESOLVED ghostdef of %s in %s: the ghost is not in the modifies list", g, key)
				}
			}
		}
		for n := range fc.Loops {
			if n >= len(vc.loops) {
				vc.unsupportedf("CONTRACT-UNRESOLVED loop %d of %s: function has %d loops", n, key, len(vc.loops))
			}
		}
	}
	return vc, nil
}

func cmdVC(args []string) {
	fs := flag.NewFlagSet("vc", flag.ExitOnError)
	fn := fs.String("func", "", "function key suffix (e.g. proc/redis.crc16)")
	lemma := fs.String("lemma", "", "lemma name")
	dump := fs.String("dump", "", "obligation name substring to dump the query of")
	timeout := fs.Int("timeout", 10000, "per-obligation timeout ms")
	keep := fs.String("dir", "", "directory for smt files (default temp)")
	fs.StringVar(&repoDir, "repo", repoDir, "repository")
	fs.Parse(args)
	prog := loadAll()
	var keys []string
	for k := range prog.funcs {
		if strings.HasSuffix(k, *fn) {
			keys = append(keys, k)
		}
	}
	sort.Strings(keys)
	dir := *keep
	if dir == "" {
		dir, _ = os.MkdirTemp("/var/tmp", "govc-")
		defer os.RemoveAll(dir)
	} else {
		os.MkdirAll(dir, 0o755)
	}
	if *lemma != "" {
		keys = nil
		for _, l := range prog.cs.Lemmas {
			if l.Name == *lemma && !l.Trusted {
				keys = append(keys, "lemma:"+l.Name)
			}
		}
	} else if *fn == "" {
		keys = nil
	}
	for _, k := range keys {
		start := time.Now()
		var vc *VC
		var err error
		if strings.HasPrefix(k, "lemma:") {
			for _, l := range prog.cs.Lemmas {
				if "lemma:"+l.Name == k {
					vc = buildLemmaVC(prog, l)
				}
			}
		} else {
			vc, err = buildVC(prog, k)
		}
		if err != nil {
			fmt.Println(err)
			continue
		}
		fmt.Printf("== %s  (%d obligations, %d facts, gen %.2fs)\n", k, len(vc.obls), len(vc.facts), time.Since(start).Seconds())
		for _, u := range vc.unsupported {
			fmt.Println("   UNSUPPORTED:", u)
		}
		var jobs []job
		for _, o := range vc.obls {
			jobs = append(jobs, job{vc, o})
		}
		SolveAll(jobs, dir, *timeout, 12)
		nVac := 0
		defer func() {
			if nVac > 0 {
				fmt.Printf("  !! %d unreachable cover(s): check for vacuity\n", nVac)
			}
		}()
		for _, o := range vc.obls {
			mark := "  "
			switch {
			case o.Expect == "sat" && o.Result == "unsat":
				mark = "VACUOUS"
				nVac++
			case o.Expect == "sat":
				mark = "cover"
			case o.Result != "unsat":
				mark = "FAIL"
			}
			fmt.Printf("  %-7s %-8s %-7s %6.2fs  %s\n", mark, o.Result, o.Solver, o.TimeS, o.Name)
			if *dump != "" && strings.Contains(o.Name, *dump) {
				fmt.Println(vc.Query(o))
				fmt.Println(o.Model)
			}
		}
	}
}

func cmdList(args []string) {
	prog := loadAll()
	var keys []string
	for k := range prog.funcs {
		keys = append(keys, k)
	}
	sort.Strings(keys)
	for _, k := range keys {
		c := ""
		if _, ok := prog.cs.Funcs[k]; ok {
			c = " [contract]"
		}
		fmt.Println(k + c)
	}
}


// buildLemmaVC: a stand-alone obligation for a lemma of the spec files.
func buildLemmaVC(prog *Program, l *Lemma) *VC {
	pkg := prog.typesPkg(l.Pkg)
	vc := newVCMode(prog, nil, nil, l.Mode, "lemma:"+l.Name, pkg)
	st := &State{heap: map[string]string{}, epoch: 0}
	st.nextId = vc.declare("nextId0", "Int")
	vc.entrySt = st.clone()
	vc.entryEnv = map[string]TV{}
	env := vc.newEnv(st, st)
	for _, h := range l.Hints {
		switch h.Kind {
		case "unfold":
			vc.assume("true", vc.unfold(h.E, env))
		case "lemma":
			vc.assume("true", vc.useLemma(h.E, env))
		}
	}
	cond := vc.trBool(l.E, env)
	o := vc.obligeG("lemma", l.Name, "true", cond, 0)
	o.Props = l.Props
	return vc
}

// cmdSweep: zero-annotation safety sweep over all functions of the packages matching a suffix.
func cmdSweep(args []string) {
	fs := flag.NewFlagSet("sweep", flag.ExitOnError)
	pkgSuffix := fs.String("pkg", "proc/redis", "package path suffix")
	timeout := fs.Int("timeout", 5000, "ms")
	fs.StringVar(&repoDir, "repo", repoDir, "repository")
	fs.Parse(args)
	prog := loadAll()
	var keys []string
	for k, fn := range prog.funcs {
		root := fn
		for root.Parent() != nil {
			root = root.Parent()
		}
		if root.Pkg != nil && strings.HasSuffix(root.Pkg.Pkg.Path(), *pkgSuffix) && len(fn.Blocks) > 0 && !strings.HasPrefix(root.Name(), "init") {
			keys = append(keys, k)
		}
	}
	sort.Strings(keys)
	dir, _ := os.MkdirTemp("/var/tmp", "govc-sweep-")
	defer os.RemoveAll(dir)
	var jobs []job
	var vcs []*VC
	for _, k := range keys {
		vc, err := buildVCSafe(prog, k)
		if err != nil {
			fmt.Println("ERR", k, err)
			continue
		}
		vcs = append(vcs, vc)
		for _, o := range vc.obls {
			if o.Expect == "sat" {
				o.Result, o.Solver = "skipped", "none"
				continue
			}
			jobs = append(jobs, job{vc, o})
		}
	}
	SolveAll(jobs, dir, *timeout, 14)
	tot, fail := 0, 0
	for _, vc := range vcs {
		var bad []string
		for _, o := range vc.obls {
			if o.Expect == "sat" {
				continue
			}
			tot++
			if o.Result != "unsat" {
				fail++
				bad = append(bad, fmt.Sprintf("      %-7s %s", o.Result, o.Name))
			}
		}
		if len(bad) > 0 || len(vc.unsupported) > 0 {
			fmt.Printf("%s: %d obligations\n", vc.name, len(vc.obls))
			seen := map[string]bool{}
			for _, u := range vc.unsupported {
				if !seen[u] {
					seen[u] = true
					fmt.Println("      UNSUPPORTED:", u)
				}
			}
			for _, b := range bad {
				fmt.Println(b)
			}
		}
	}
	fmt.Printf("total %d obligations, %d not discharged, %d functions\n", tot, fail, len(vcs))
}

func buildVCSafe(prog *Program, key string) (vc *VC, err error) {
	defer func() {
		if r := recover(); r != nil {
			err = fmt.Errorf("panic in VC generation of %s: %v", key, r)
		}
	}()
	return buildVC(prog, key)
}

// wordIn reports whether w occurs in s as a whole identifier.
func wordIn(s, w string) bool {
	for i := 0; i+len(w) <= len(s); i++ {
		if s[i:i+len(w)] != w {
			continue
		}
		isId := func(c byte) bool {
			return c == '_' || (c >= '0' && c <= '9') || (c >= 'a' && c <= 'z') || (c >= 'A' && c <= 'Z')
		}
		if i > 0 && isId(s[i-1]) {
			continue
		}
		if i+len(w) < len(s) && isId(s[i+len(w)]) {
			continue
		}
		return true
	}
	return false
}
