package main

import (
	"fmt"
	"go/ast"
	"go/constant"
	"go/token"
	"math/big"
	"go/types"
	"os"
	"sort"
	"strings"
	"sync"

	"golang.org/x/tools/go/packages"
	"golang.org/x/tools/go/ssa"
	"golang.org/x/tools/go/ssa/ssautil"
)

type Program struct {
	fset      *token.FileSet
	pkgs      []*packages.Package
	ssa       *ssa.Program
	module    string
	repo      string
	cs        *Contracts
	pkgByName map[string]*types.Package
	byPath    map[string]*types.Package
	ssaPkgs   map[string]*ssa.Package
	funcs     map[string]*ssa.Function

	mu       sync.Mutex
	globals  map[*ssa.Global]int
	funcIDs  map[*ssa.Function]int
	nextGlob int

	globalUses map[*ssa.Global][]ssa.Instruction
	ff         fieldFacts
}

func LoadProgram(repo, specDir string, patterns []string) (*Program, error) {
	cfg := &packages.Config{
		Mode: packages.NeedName | packages.NeedFiles | packages.NeedCompiledGoFiles | packages.NeedImports | packages.NeedDeps |
			packages.NeedTypes | packages.NeedSyntax | packages.NeedTypesInfo | packages.NeedTypesSizes | packages.NeedModule,
		Dir:        repo,
		BuildFlags: []string{"-tags=verif"},
		Env:        append(os.Environ(), "GOFLAGS=-mod=mod", "GOPROXY=off", "GOSUMDB=off", "GOTOOLCHAIN=local"),
	}
	pkgs, err := packages.Load(cfg, patterns...)
	if err != nil {
		return nil, err
	}
	nerr := 0
	packages.Visit(pkgs, nil, func(p *packages.Package) {
		for _, e := range p.Errors {
			if nerr < 10 {
				fmt.Fprintf(os.Stderr, "load error: %v\n", e)
			}
			nerr++
		}
	})
	if nerr > 0 {
		return nil, fmt.Errorf("%d package load errors", nerr)
	}
	prog, _ := ssautil.AllPackages(pkgs, ssa.GlobalDebug|ssa.BareInits)
	prog.Build()
	p := &Program{fset: prog.Fset, pkgs: pkgs, ssa: prog, repo: repo, pkgByName: map[string]*types.Package{}, byPath: map[string]*types.Package{},
		ssaPkgs: map[string]*ssa.Package{}, funcs: map[string]*ssa.Function{}, globals: map[*ssa.Global]int{}, funcIDs: map[*ssa.Function]int{}, nextGlob: 10}
	for _, pk := range pkgs {
		if pk.Module != nil && p.module == "" {
			p.module = pk.Module.Path
		}
	}
	for _, sp := range prog.AllPackages() {
		path := sp.Pkg.Path()
		p.byPath[path] = sp.Pkg
		p.ssaPkgs[path] = sp
		if strings.HasPrefix(path, p.module) {
			if _, dup := p.pkgByName[sp.Pkg.Name()]; !dup {
				p.pkgByName[sp.Pkg.Name()] = sp.Pkg
			}
		}
	}
	// stdlib packages by name where not shadowed
	for _, sp := range prog.AllPackages() {
		if _, ok := p.pkgByName[sp.Pkg.Name()]; !ok {
			p.pkgByName[sp.Pkg.Name()] = sp.Pkg
		}
	}
	for fn := range ssautil.AllFunctions(prog) {
		root := fn
		for root.Parent() != nil {
			root = root.Parent()
		}
		if root.Pkg == nil || !strings.HasPrefix(root.Pkg.Pkg.Path(), p.module) {
			continue
		}
		if fn.Synthetic != "" && fn.Parent() == nil && !strings.HasPrefix(fn.Name(), "init") {
			continue
		}
		key := root.Pkg.Pkg.Path() + "." + funcRelName(fn)
		if old, dup := p.funcs[key]; dup && old != fn {
			// keep the one with a body
			if len(old.Blocks) > 0 {
				continue
			}
		}
		p.funcs[key] = fn
	}
	cs, err := LoadAllContracts(repo, p.module, specDir)
	if err != nil {
		return nil, err
	}
	p.cs = cs
	return p, nil
}

func (p *Program) typesPkg(path string) *types.Package {
	if path == "" {
		return nil
	}
	return p.byPath[path]
}

func (p *Program) funcByKey(key string) *ssa.Function { return p.funcs[key] }

func (p *Program) globalID(g *ssa.Global) int {
	p.mu.Lock()
	defer p.mu.Unlock()
	if id, ok := p.globals[g]; ok {
		return id
	}
	p.nextGlob++
	p.globals[g] = p.nextGlob
	return p.nextGlob
}

func (p *Program) funcID(f *ssa.Function) int {
	p.mu.Lock()
	defer p.mu.Unlock()
	if id, ok := p.funcIDs[f]; ok {
		return id
	}
	p.nextGlob++
	p.funcIDs[f] = p.nextGlob
	return p.nextGlob
}

func (p *Program) globalFor(v *types.Var) *ssa.Global {
	if v.Pkg() == nil {
		return nil
	}
	sp := p.ssaPkgs[v.Pkg().Path()]
	if sp == nil {
		return nil
	}
	g, _ := sp.Members[v.Name()].(*ssa.Global)
	return g
}

// immutableArrayInit: the constant elements of a package-level array whose
// memory is never written outside its initialiser (whole-module scan).
func (p *Program) immutableArrayInit(g *ssa.Global) ([]*big.Int, bool) {
	p.mu.Lock()
	if p.globalUses == nil {
		p.globalUses = map[*ssa.Global][]ssa.Instruction{}
		for fn := range ssautil.AllFunctions(p.ssa) {
			for _, b := range fn.Blocks {
				for _, ins := range b.Instrs {
					for _, op := range ins.Operands(nil) {
						if gg, ok := (*op).(*ssa.Global); ok {
							p.globalUses[gg] = append(p.globalUses[gg], ins)
						}
					}
				}
			}
		}
	}
	uses := p.globalUses[g]
	p.mu.Unlock()
	for _, ins := range uses {
		inInit := ins.Parent().Synthetic != "" && strings.HasPrefix(ins.Parent().Name(), "init")
		switch x := ins.(type) {
		case *ssa.IndexAddr:
			for _, r := range *x.Referrers() {
				if u, ok := r.(*ssa.UnOp); ok && u.Op == token.MUL {
					continue
				}
				if _, ok := r.(*ssa.DebugRef); ok {
					continue
				}
				if _, ok := r.(*ssa.Store); ok && inInit {
					continue
				}
				return nil, false
			}
		case *ssa.UnOp:
			if x.Op != token.MUL {
				return nil, false
			}
		case *ssa.Store:
			if !inInit {
				return nil, false
			}
		case *ssa.DebugRef:
		default:
			return nil, false
		}
	}
	// initialiser from the syntax tree
	for _, pk := range p.pkgs {
		var found []*big.Int
		ok := false
		packages.Visit([]*packages.Package{pk}, nil, func(pp *packages.Package) {
			if ok || pp.Types == nil || pp.Types.Path() != g.Pkg.Pkg.Path() {
				return
			}
			for _, f := range pp.Syntax {
				for _, d := range f.Decls {
					gd, isGen := d.(*ast.GenDecl)
					if !isGen || gd.Tok != token.VAR {
						continue
					}
					for _, sp := range gd.Specs {
						vs := sp.(*ast.ValueSpec)
						for i, nm := range vs.Names {
							if nm.Name != g.Name() || i >= len(vs.Values) {
								continue
							}
							cl, isCL := vs.Values[i].(*ast.CompositeLit)
							if !isCL {
								return
							}
							for _, e := range cl.Elts {
								if _, keyed := e.(*ast.KeyValueExpr); keyed {
									return
								}
								tv, has := pp.TypesInfo.Types[e]
								if !has || tv.Value == nil {
									return
								}
								n, good := new(big.Int).SetString(constant.ToInt(tv.Value).ExactString(), 10)
								if !good {
									return
								}
								found = append(found, n)
							}
							ok = true
						}
					}
				}
			}
		})
		if ok {
			return found, true
		}
	}
	return nil, false
}

func (p *Program) typeByName(name string) types.Type {
	var found types.Type
	var paths []string
	for path := range p.byPath {
		if strings.HasPrefix(path, p.module) {
			paths = append(paths, path)
		}
	}
	sort.Strings(paths)
	for _, path := range paths {
		if obj := p.byPath[path].Scope().Lookup(name); obj != nil {
			if tn, ok := obj.(*types.TypeName); ok {
				if found != nil {
					return nil // ambiguous
				}
				found = tn.Type()
			}
		}
	}
	return found
}

// returnsNonNil: every return of fn yields, at result index i, a freshly
// allocated object (or the result of another such function).
func (p *Program) returnsNonNil(fn *ssa.Function, i int, depth int) bool {
	if depth > 4 || len(fn.Blocks) == 0 {
		return false
	}
	found := false
	for _, b := range fn.Blocks {
		for _, ins := range b.Instrs {
			r, ok := ins.(*ssa.Return)
			if !ok {
				continue
			}
			if i >= len(r.Results) {
				return false
			}
			found = true
			switch v := r.Results[i].(type) {
			case *ssa.Alloc, *ssa.MakeClosure, *ssa.MakeMap, *ssa.MakeChan, *ssa.Function:
			case *ssa.Call:
				c := v.Common().StaticCallee()
				if c == nil || !p.returnsNonNil(c, 0, depth+1) {
					return false
				}
			case *ssa.Extract:
				cl, ok := v.Tuple.(*ssa.Call)
				if !ok {
					return false
				}
				c := cl.Common().StaticCallee()
				if c == nil || !p.returnsNonNil(c, v.Index, depth+1) {
					return false
				}
			default:
				return false
			}
		}
	}
	return found
}

// onlyWrittenInInit: every store whose address derives from the global sits in an init function.
func (p *Program) onlyWrittenInInit(g *ssa.Global) bool {
	p.immutableArrayInit(g) // builds the use index
	p.mu.Lock()
	uses := p.globalUses[g]
	p.mu.Unlock()
	var check func(v ssa.Value, depth int) bool
	check = func(v ssa.Value, depth int) bool {
		refs := v.Referrers()
		if refs == nil {
			return true
		}
		for _, r := range *refs {
			inInit := strings.HasPrefix(r.Parent().Name(), "init")
			switch x := r.(type) {
			case *ssa.Store:
				if x.Addr == v && !inInit {
					return false
				}
				if x.Val == v {
					return false // address escapes
				}
			case *ssa.IndexAddr, *ssa.FieldAddr:
				if depth < 4 && !check(x.(ssa.Value), depth+1) {
					return false
				}
			case *ssa.UnOp, *ssa.DebugRef:
			case *ssa.Slice:
				if !inInit {
					return false
				}
			default:
				if !inInit {
					return false
				}
			}
		}
		return true
	}
	for _, ins := range uses {
		inInit := strings.HasPrefix(ins.Parent().Name(), "init")
		switch x := ins.(type) {
		case *ssa.Store:
			if x.Addr == ssa.Value(g) && !inInit {
				return false
			}
			if x.Val == ssa.Value(g) {
				return false
			}
		case *ssa.IndexAddr:
			if !check(x, 0) {
				return false
			}
		case *ssa.FieldAddr:
			if !check(x, 0) {
				return false
			}
		case *ssa.UnOp, *ssa.DebugRef:
		default:
			if !inInit {
				return false
			}
		}
	}
	return true
}

// checkSingleWriter: every call of (*sync/atomic.Value).Store whose receiver is the field Type.field
// sits in function writer of package pkg, and writer's contract has an ensures clause labelled label.
func (p *Program) checkSingleWriter(pkg, writers, field, label string) string {
	// several writers (a constructor and a setter) are given separated by commas: each proves the clause
	isWriter := map[string]bool{}
	for _, writer := range strings.Split(writers, ",") {
		isWriter[writer] = true
		fc := p.cs.Funcs[pkg+"."+writer]
		if fc == nil {
			return "no contract for " + writer
		}
		found := false
		for _, e := range fc.Ensures {
			if e.Label == label {
				found = true
			}
		}
		if !found {
			return writer + " has no ensures clause @" + label
		}
	}
	i := strings.LastIndex(field, ".")
	if i < 0 {
		return "field must be Type.field"
	}
	tname, fname := field[:i], field[i+1:]
	for fn := range ssautil.AllFunctions(p.ssa) {
		for _, b := range fn.Blocks {
			for _, ins := range b.Instrs {
				var addr ssa.Value
				switch x := ins.(type) {
				case ssa.CallInstruction:
					c := x.Common()
					if sc := c.StaticCallee(); sc != nil && len(c.Args) > 0 {
						n := sc.String()
						if strings.HasSuffix(n, "atomic.Value).Store") || strings.HasSuffix(n, "sync.Map).Store") ||
							strings.HasSuffix(n, "sync.Map).LoadOrStore") || strings.HasSuffix(n, "sync.Map).Delete") || strings.HasSuffix(n, "sync.Map).LoadAndDelete") {
							addr = c.Args[0]
						}
					}
				}
				fa, ok := addr.(*ssa.FieldAddr)
				if !ok {
					continue
				}
				st := fa.X.Type().Underlying().(*types.Pointer).Elem()
				named, ok := st.(*types.Named)
				if !ok || named.Obj().Name() != tname || named.Obj().Pkg() == nil || named.Obj().Pkg().Path() != pkg {
					continue
				}
				if st.Underlying().(*types.Struct).Field(fa.Field).Name() != fname {
					continue
				}
				root := fn
				for root.Parent() != nil {
					root = root.Parent()
				}
				if root.Pkg == nil || root.Pkg.Pkg.Path() != pkg || !isWriter[funcRelName(fn)] {
					return "also written in " + fn.String()
				}
			}
		}
	}
	return ""
}

// fieldInfo caches module-wide facts about struct fields.
type fieldFacts struct {
	immutable  map[string]bool
	closeSites map[string]int
	built      bool
}

func (p *Program) buildFieldFacts() {
	p.mu.Lock()
	defer p.mu.Unlock()
	if p.ff.built {
		return
	}
	p.ff.built = true
	p.ff.immutable = map[string]bool{}
	p.ff.closeSites = map[string]int{}
	written := map[string]bool{}
	seenField := map[string]bool{}
	// a whole struct value written over an existing object (assignment through a pointer or an element,
	// copy, append) writes every field of it
	var markAll func(t types.Type, depth int)
	markAll = func(t types.Type, depth int) {
		if depth > 6 {
			return
		}
		switch u := t.Underlying().(type) {
		case *types.Struct:
			for i := 0; i < u.NumFields(); i++ {
				written[fieldKey(t, i)] = true
				markAll(u.Field(i).Type(), depth+1)
			}
		case *types.Array:
			markAll(u.Elem(), depth+1)
		}
	}
	for fn := range ssautil.AllFunctions(p.ssa) {
		for _, b := range fn.Blocks {
			for _, ins := range b.Instrs {
				switch x := ins.(type) {
				case *ssa.Store:
					if _, fresh := x.Addr.(*ssa.Alloc); !fresh {
						markAll(x.Val.Type(), 0)
					}
				case *ssa.FieldAddr:
					pt := x.X.Type().Underlying().(*types.Pointer).Elem()
					key := fieldKey(pt, x.Field)
					seenField[key] = true
					// any use of the field address other than a load is a potential write; stores into a
					// freshly allocated object (composite literal / constructor) are initialisation
					for _, r := range *x.Referrers() {
						switch u := r.(type) {
						case *ssa.UnOp, *ssa.DebugRef:
						case *ssa.Store:
							if u.Addr != ssa.Value(x) {
								written[key] = true // address stored somewhere
								continue
							}
							if _, fresh := x.X.(*ssa.Alloc); fresh {
								continue
							}
							written[key] = true
						case *ssa.FieldAddr, *ssa.IndexAddr:
							// nested aggregate: handled by its own key
						default:
							written[key] = true
						}
					}
				case ssa.CallInstruction:
					c := x.Common()
					if bi, ok := c.Value.(*ssa.Builtin); ok && (bi.Name() == "copy" || bi.Name() == "append") && len(c.Args) > 0 {
						if sl, ok := c.Args[0].Type().Underlying().(*types.Slice); ok {
							markAll(sl.Elem(), 0)
						}
					}
					if bi, ok := c.Value.(*ssa.Builtin); ok && bi.Name() == "close" && len(c.Args) == 1 {
						if ld, ok := c.Args[0].(*ssa.UnOp); ok && ld.Op == token.MUL {
							if fa, ok := ld.X.(*ssa.FieldAddr); ok {
								pt := fa.X.Type().Underlying().(*types.Pointer).Elem()
								p.ff.closeSites[fieldKey(pt, fa.Field)]++
								continue
							}
						}
						p.ff.closeSites["?"]++
					}
				}
			}
		}
	}
	for k := range seenField {
		if !written[k] {
			p.ff.immutable[k] = true
		}
	}
}

// fieldImmutable: the field is only ever stored into freshly allocated objects (initialisation).
func (p *Program) fieldImmutable(key string) bool {
	p.buildFieldFacts()
	return p.ff.immutable[key]
}

// singleCloseSite: exactly one close(x.f) in the module for this field (and no close of unknown channels
// of the same element type is tracked: closes through other expressions are counted under "?").
func (p *Program) singleCloseSite(key string) bool {
	p.buildFieldFacts()
	return p.ff.closeSites[key] == 1
}

// globalInitNonNil: g is only written by init functions, every store assigns a fresh allocation or the
// result of a call that never returns nil.
func (p *Program) globalInitNonNil(g *ssa.Global) bool {
	if !p.onlyWrittenInInit(g) {
		return false
	}
	p.mu.Lock()
	uses := p.globalUses[g]
	p.mu.Unlock()
	n := 0
	for _, u := range uses {
		st, ok := u.(*ssa.Store)
		if !ok || st.Addr != ssa.Value(g) {
			continue
		}
		n++
		switch v := st.Val.(type) {
		case *ssa.Alloc:
		case *ssa.Call:
			c := v.Common().StaticCallee()
			if c == nil || !p.returnsNonNil(c, 0, 0) {
				return false
			}
		default:
			return false
		}
	}
	return n > 0
}
