#!/bin/sh
# confirm_seed.sh <dir-with-patch.diff,zz_demo_test.go,meta.json> <seed-name>
# Confirms a seeded defect in a scratch worktree and stores it under /verif/seeded/<seed-name>/
export GOFLAGS=-mod=mod GOPROXY=off GOSUMDB=off GOTOOLCHAIN=local
SRC="$1"; NAME="$2"
WT=/tmp/cf-$NAME
git -C /repo worktree remove --force $WT 2>/dev/null
git -C /repo worktree add -q --detach $WT HEAD || exit 2
cd $WT
DEMODIR=$(python3 -c "import json;print(json.load(open('$SRC/meta.json'))['demo_dir'])")
git apply $SRC/patch.diff || { echo "PATCH DOES NOT APPLY"; exit 2; }
go build ./... || { echo "BUILD FAILS"; exit 2; }
cp $SRC/zz_demo_test.go $DEMODIR/zz_demo_test.go
go test -vet=off -count=1 -timeout 120s -run 'Demo|demo' ./$DEMODIR > /tmp/cf-$NAME.with.txt 2>&1; W=$?
git apply -R $SRC/patch.diff
go test -vet=off -count=1 -timeout 120s -run 'Demo|demo' ./$DEMODIR > /tmp/cf-$NAME.without.txt 2>&1; WO=$?
rm $DEMODIR/zz_demo_test.go
git apply $SRC/patch.diff
go test -vet=off -count=1 -timeout 10m ./... 2>&1 | grep -v "^ok\|no test files" > /tmp/cf-$NAME.suite.txt
cd /; git -C /repo worktree remove --force $WT
echo "demo with change: exit $W (want non-zero); without: exit $WO (want 0)"
echo "suite lines that are not ok:"; cat /tmp/cf-$NAME.suite.txt | head -20
if [ $W -ne 0 ] && [ $WO -eq 0 ]; then
  mkdir -p /verif/seeded/$NAME
  cp $SRC/patch.diff $SRC/zz_demo_test.go /verif/seeded/$NAME/
  python3 - <<PY
import json
m=json.load(open('$SRC/meta.json'))
m['confirmed']={'demo_with_change_exit':$W,'demo_without_change_exit':$WO,'suite_not_ok':open('/tmp/cf-$NAME.suite.txt').read().splitlines()[:20],
 'how':'tools/confirm_seed.sh: fresh worktree of /repo HEAD; git apply; go build ./...; demo test fails with the change, passes with it reverted; full suite run with the change applied'}
json.dump(m,open('/verif/seeded/$NAME/meta.json','w'),indent=1)
PY
  echo CONFIRMED
else
  echo NOT-CONFIRMED
fi
