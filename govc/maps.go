package main

// maps, range iterators, channels, select, go, defer, closures

import (
	"fmt"
	"strings"
	"go/token"
	"go/types"

	"golang.org/x/tools/go/ssa"
)

func (vc *VC) mapKeyNames(mt *types.Map) (dom, val, ln string) {
	k := canonType(mt.Key())
	v := canonType(mt.Elem())
	// one family of heaps per Go map type: maps of different types never alias
	dom = "#map.dom<" + k + "," + v + ">"
	val = "#map.val<" + k + "," + v + ">"
	ln = "#map.len<" + k + "," + v + ">"
	ks := vc.sortOf(mt.Key())
	vc.heapKeySort(dom, &GhostType{Sort: fmt.Sprintf("(Array %s Bool)", ks), Key: mt.Key(), Val: types.Typ[types.Bool]})
	if isStruct(mt.Elem()) && mt.Elem().Underlying().(*types.Struct).NumFields() == 0 {
		vc.structSort(mt.Elem())
	}
	vc.heapKeySort(val, &GhostType{Sort: fmt.Sprintf("(Array %s %s)", ks, vc.sortOf(mt.Elem())), Key: mt.Key(), Val: mt.Elem()})
	vc.heapKeySort(ln, types.Typ[types.Int])
	if !vc.specUsed["#mapnil"+dom] {
		vc.specUsed["#mapnil"+dom] = true
		// the nil map is empty, in every heap version: stated where it is read (see mapDom)
	}
	return
}

func (vc *VC) mapKeysFor(t types.Type) []string {
	mt, ok := t.Underlying().(*types.Map)
	if !ok {
		return nil
	}
	d, v, l := vc.mapKeyNames(mt)
	return []string{d, v, l}
}

func (vc *VC) mapDomTerm(m TV, mt *types.Map, env *Env) string {
	d, _, _ := vc.mapKeyNames(mt)
	return vc.envHeapRead(env, d, vc.heapElem[d], m.S)
}

func (vc *VC) mapHasTerm(m, k TV, mt *types.Map, env *Env) string {
	k = vc.coerceInt(k, mt.Key())
	t := sx("select", vc.mapDomTerm(m, mt, env), k.S)
	vc.notePat(env, t)
	return and(not(eq(m.S, "lnil")), t)
}

func (vc *VC) mapGetSpec(m, k TV, mt *types.Map, env *Env) TV {
	_, v, _ := vc.mapKeyNames(mt)
	k = vc.coerceInt(k, mt.Key())
	t := sx("select", vc.envHeapRead(env, v, vc.heapElem[v], m.S), k.S)
	vc.notePat(env, t)
	return TV{T: mt.Elem(), S: t}
}

func (vc *VC) mapLenTerm(m TV, mt *types.Map, env *Env) string {
	_, _, l := vc.mapKeyNames(mt)
	return ite(eq(m.S, "lnil"), vc.ar.ix(0), vc.envHeapRead(env, l, types.Typ[types.Int], m.S))
}

// mapFacts: relations between len and dom that hold in every state.
func (vc *VC) mapFacts(st *State, m string, mt *types.Map) {
	ar := vc.ar
	d, _, l := vc.mapKeyNames(mt)
	dom := vc.heapRead(st, d, vc.heapElem[d], m)
	ln := vc.heapRead(st, l, types.Typ[types.Int], m)
	ks := vc.sortOf(mt.Key())
	vc.assume(vc.guard(), ar.le(ixInfo, ar.ix(0), ln))
	vc.assume(vc.guard(), fmt.Sprintf("(=> (= %s %s) (forall ((k!m %s)) (! (not (select %s k!m)) :pattern ((select %s k!m)))))", ln, ar.ix(0), ks, dom, dom))
	vc.assume(vc.guard(), fmt.Sprintf("(forall ((k!m %s)) (! (=> (select %s k!m) %s) :pattern ((select %s k!m))))", ks, dom, ar.lt(ixInfo, ar.ix(0), ln), dom))
}

// mapFactsG: mapFacts for a possibly nil map, plus the witness of non-emptiness (len is the
// cardinality of the key set: a positive length means some key is present).
func (vc *VC) mapFactsG(st *State, m string, mt *types.Map) {
	d, _, l := vc.mapKeyNames(mt)
	dom := vc.heapRead(st, d, vc.heapElem[d], m)
	ln := vc.heapRead(st, l, types.Typ[types.Int], m)
	saveG := vc.guard()
	_ = saveG
	nn := not(eq(m, "lnil"))
	ar := vc.ar
	ks := vc.sortOf(mt.Key())
	vc.assume(vc.guard(), imp(nn, ar.le(ixInfo, ar.ix(0), ln)))
	vc.assume(vc.guard(), imp(nn, fmt.Sprintf("(=> (= %s %s) (forall ((k!m %s)) (! (not (select %s k!m)) :pattern ((select %s k!m)))))", ln, ar.ix(0), ks, dom, dom)))
	vc.assume(vc.guard(), imp(nn, fmt.Sprintf("(forall ((k!m %s)) (! (=> (select %s k!m) %s) :pattern ((select %s k!m))))", ks, dom, ar.lt(ixInfo, ar.ix(0), ln), dom)))
	w := vc.freshConst("mapwit", ks)
	vc.assume(vc.guard(), vc.typeInv(mt.Key(), w, st))
	vc.assume(vc.guard(), imp(and(nn, ar.lt(ixInfo, ar.ix(0), ln)), sx("select", dom, w)))
}

func (vc *VC) makeMap(x *ssa.MakeMap, st *State) {
	mt := x.Type().Underlying().(*types.Map)
	loc := vc.alloc(st)
	tv := vc.defVal(x, loc)
	d, _, l := vc.mapKeyNames(mt)
	ks := vc.sortOf(mt.Key())
	vc.heapWrite(st, d, vc.heapElem[d], tv.S, fmt.Sprintf("((as const (Array %s Bool)) false)", ks))
	vc.heapWrite(st, l, types.Typ[types.Int], tv.S, vc.ar.ix(0))
}

func (vc *VC) mapUpdate(x *ssa.MapUpdate, st *State) {
	mt := x.Map.Type().Underlying().(*types.Map)
	m, k, v := vc.val(x.Map), vc.val(x.Key), vc.val(x.Value)
	vc.oblige("nil-map-write", "", not(eq(m.S, "lnil")), x.Pos())
	d, vk, l := vc.mapKeyNames(mt)
	dom := vc.heapRead(st, d, vc.heapElem[d], m.S)
	val := vc.heapRead(st, vk, vc.heapElem[vk], m.S)
	ln := vc.heapRead(st, l, types.Typ[types.Int], m.S)
	had := vc.define("had", "Bool", sx("select", dom, k.S))
	vc.heapWrite(st, l, types.Typ[types.Int], m.S, ite(had, ln, vc.ar.ixadd(ln, vc.ar.ix(1))))
	vc.heapWrite(st, d, vc.heapElem[d], m.S, sx("store", dom, k.S, "true"))
	vc.heapWrite(st, vk, vc.heapElem[vk], m.S, sx("store", val, k.S, v.S))
}

func (vc *VC) mapDelete(c *ssa.CallCommon, st *State, pos token.Pos) {
	mt := c.Args[0].Type().Underlying().(*types.Map)
	m, k := vc.val(c.Args[0]), vc.val(c.Args[1])
	d, _, l := vc.mapKeyNames(mt)
	dom := vc.heapRead(st, d, vc.heapElem[d], m.S)
	ln := vc.heapRead(st, l, types.Typ[types.Int], m.S)
	g := vc.guard()
	// delete on a nil map is a no-op
	had := vc.define("had", "Bool", and(not(eq(m.S, "lnil")), sx("select", dom, k.S)))
	_ = g
	newLn := ite(had, vc.ar.ixsub(ln, vc.ar.ix(1)), ln)
	newDom := ite(eq(m.S, "lnil"), dom, sx("store", dom, k.S, "false"))
	vc.heapWrite(st, l, types.Typ[types.Int], m.S, newLn)
	vc.heapWrite(st, d, vc.heapElem[d], m.S, newDom)
}

func (vc *VC) lookup(x *ssa.Lookup, st *State) {
	switch mt := x.X.Type().Underlying().(type) {
	case *types.Map:
		m, k := vc.val(x.X), vc.val(x.Index)
		d, vk, _ := vc.mapKeyNames(mt)
		dom := vc.heapRead(st, d, vc.heapElem[d], m.S)
		val := vc.heapRead(st, vk, vc.heapElem[vk], m.S)
		ok := vc.define("mapok", "Bool", and(not(eq(m.S, "lnil")), sx("select", dom, k.S)))
		v := vc.define("mapval", vc.sortOf(mt.Elem()), ite(ok, sx("select", val, k.S), vc.zero(mt.Elem())))
		vc.assume(vc.guard(), vc.typeInv(mt.Elem(), v, st))
		vc.mapFacts(st, m.S, mt)
		if x.CommaOk {
			vc.vals[x] = TV{T: x.Type(), Tup: []TV{{T: mt.Elem(), S: v}, {T: types.Typ[types.Bool], S: ok}}}
		} else {
			vc.setVal(x, v)
		}
	case *types.Basic: // string index
		a, i := vc.val(x.X), vc.val(x.Index)
		idx := vc.toIX(i)
		vc.oblige("index", "", and(vc.ar.le(ixInfo, vc.ar.ix(0), idx), vc.ar.lt(ixInfo, idx, sx("slen_", a.S))), x.Pos())
		vc.defVal(x, sx("sat_", a.S, idx))
	default:
		vc.unsupportedf("lookup on %s", x.X.Type())
		vc.havocVal(x, st)
	}
}

// ---------------------------------------------------------------------------
// range over maps

func (vc *VC) iterKey(r *ssa.Range) (string, *types.Map) {
	mt, ok := r.X.Type().Underlying().(*types.Map)
	if !ok {
		return "", nil
	}
	n := 0
	for _, b := range vc.fn.Blocks {
		for _, ins := range b.Instrs {
			if rr, ok := ins.(*ssa.Range); ok {
				if rr == r {
					key := fmt.Sprintf("#iter%d", n)
					vc.heapKeySort(key, &GhostType{Sort: fmt.Sprintf("(Array %s Bool)", vc.sortOf(mt.Key())), Key: mt.Key(), Val: types.Typ[types.Bool]})
					return key, mt
				}
				if _, ok := rr.X.Type().Underlying().(*types.Map); ok {
					n++
				}
			}
		}
	}
	return "", nil
}

func (vc *VC) rangeInit(x *ssa.Range, st *State) {
	key, mt := vc.iterKey(x)
	if mt == nil {
		vc.unsupportedf("range over %s", x.X.Type())
		vc.setVal(x, "lnil")
		return
	}
	vc.setVal(x, vc.val(x.X).S)
	vc.heapWrite(st, key, vc.heapElem[key], "lnil", fmt.Sprintf("((as const (Array %s Bool)) false)", vc.sortOf(mt.Key())))
	ck := strings.Replace(key, "#iter", "#itern", 1)
	vc.heapKeySort(ck, types.Typ[types.Int])
	vc.heapWrite(st, ck, types.Typ[types.Int], "lnil", vc.ar.ix(0))
}

func (vc *VC) rangeNext(x *ssa.Next, st *State) {
	r, ok := x.Iter.(*ssa.Range)
	if !ok || x.IsString {
		vc.unsupportedf("next on non-map iterator")
		vc.havocVal(x, st)
		return
	}
	key, mt := vc.iterKey(r)
	m := vc.val(r.X)
	d, vk, _ := vc.mapKeyNames(mt)
	dom := vc.heapRead(st, d, vc.heapElem[d], m.S)
	val := vc.heapRead(st, vk, vc.heapElem[vk], m.S)
	vis := vc.heapRead(st, key, vc.heapElem[key], "lnil")
	ok2 := vc.freshConst("nextok", "Bool")
	k := vc.freshConst("nextk", vc.sortOf(mt.Key()))
	v := vc.freshConst("nextv", vc.sortOf(mt.Elem()))
	ks := vc.sortOf(mt.Key())
	g := vc.guard()
	vc.assume(g, imp(ok2, and(not(eq(m.S, "lnil")), sx("select", dom, k), not(sx("select", vis, k)), eq(v, sx("select", val, k)))))
	vc.assume(g, imp(not(ok2), or(eq(m.S, "lnil"), fmt.Sprintf("(forall ((k!n %s)) (! (=> (select %s k!n) (select %s k!n)) :pattern ((select %s k!n))))", ks, dom, vis, dom))))
	vc.assume(g, vc.typeInv(mt.Key(), k, st))
	vc.assume(g, vc.typeInv(mt.Elem(), v, st))
	vc.heapWrite(st, key, vc.heapElem[key], "lnil", ite(ok2, sx("store", vis, k, "true"), vis))
	// number of keys produced so far; if the loop does not modify any map, a completed iteration
	// produced exactly len(map) keys
	ck := strings.Replace(key, "#iter", "#itern", 1)
	vc.heapKeySort(ck, types.Typ[types.Int])
	cnt := vc.heapRead(st, ck, types.Typ[types.Int], "lnil")
	li := vc.loopContaining(x.Block())
	if li != nil && !li.modAll && !li.mods["#map"] {
		_, _, lk := vc.mapKeyNames(mt)
		ln := ite(eq(m.S, "lnil"), vc.ar.ix(0), vc.heapRead(st, lk, types.Typ[types.Int], m.S))
		vc.assume(g, imp(ok2, vc.ar.lt(ixInfo, cnt, ln)))
		vc.assume(g, imp(not(ok2), eq(cnt, ln)))
	}
	vc.heapWrite(st, ck, types.Typ[types.Int], "lnil", ite(ok2, vc.ar.ixadd(cnt, vc.ar.ix(1)), cnt))
	vc.vals[x] = TV{T: x.Type(), Tup: []TV{{T: types.Typ[types.Bool], S: ok2}, {T: mt.Key(), S: k}, {T: mt.Elem(), S: v}}}
}

// ---------------------------------------------------------------------------
// closures, channels, goroutines, defers

func (vc *VC) makeClosure(x *ssa.MakeClosure, st *State) {
	loc := vc.alloc(st)
	tv := vc.defVal(x, loc)
	// which function a closure value stands for (fnis(f, "name") in contracts)
	if fn, ok := x.Fn.(*ssa.Function); ok {
		vc.heapKeySort("#fnid", types.Typ[types.Int])
		vc.heapWrite(st, "#fnid", types.Typ[types.Int], tv.S, vc.ar.ix(int64(vc.prog.funcID(fn))))
	}
}

func (vc *VC) makeChan(x *ssa.MakeChan, st *State) {
	loc := vc.alloc(st)
	tv := vc.defVal(x, loc)
	I, B := types.Typ[types.Int], types.Typ[types.Bool]
	vc.heapWrite(st, "#chcap", I, tv.S, vc.toIX(vc.val(x.Size)))
	vc.heapWrite(st, "#closed", B, tv.S, "false")
}

func (vc *VC) send(x *ssa.Send, st *State) {
	ch := vc.val(x.Chan)
	if vc.fc != nil && vc.fc.Flags["check-chan"] {
		vc.oblige("send-closed-chan", "", not(vc.heapRead(st, "#closed", types.Typ[types.Bool], ch.S)), x.Pos())
	}
	// a send that may block must not happen while a mutex taken by this function is held: whoever
	// drains the channel may need that mutex
	if vc.fc != nil && vc.fc.Flags["no-blocking-under-lock"] {
		vc.heapKeySort("#held", types.Typ[types.Bool])
		h := vc.heapGet(st, "#held", types.Typ[types.Bool])
		vc.oblige("blocking-send-while-locked", "", fmt.Sprintf("(forall ((l!h Loc)) (! (not (select %s l!h)) :pattern ((select %s l!h))))", h, h), x.Pos())
	}
	vc.sendHook(x.Chan, x.X, st, x.Pos())
}

func (vc *VC) recv(x *ssa.UnOp, st *State) {
	// a completed blocking receive is remembered (waitedfor(ch) in contracts)
	vc.heapKeySort("#waited", types.Typ[types.Bool])
	vc.heapWrite(st, "#waited", types.Typ[types.Bool], vc.val(x.X).S, "true")
	t := x.Type()
	if x.CommaOk {
		tup := t.(*types.Tuple)
		v := vc.freshConst("recv", vc.sortOf(tup.At(0).Type()))
		ok := vc.freshConst("recvok", "Bool")
		vc.assume(vc.guard(), vc.typeInv(tup.At(0).Type(), v, st))
		vc.vals[x] = TV{T: t, Tup: []TV{{T: tup.At(0).Type(), S: v}, {T: types.Typ[types.Bool], S: ok}}}
		vc.recvHook(x.X, vc.vals[x].Tup[0], st, x.Pos())
		return
	}
	tv := vc.havocVal(x, st)
	vc.recvHook(x.X, tv, st, x.Pos())
}

func (vc *VC) selectInstr(x *ssa.Select, st *State) {
	ar := vc.ar
	tup := x.Type().(*types.Tuple)
	tv := TV{T: x.Type()}
	idx := vc.freshConst("selidx", ar.IX())
	lo := int64(0)
	if !x.Blocking {
		lo = -1
	}
	vc.assume(vc.guard(), and(ar.le(ixInfo, ar.ix(lo), idx), ar.lt(ixInfo, idx, ar.ix(int64(len(x.States))))))
	tv.Tup = append(tv.Tup, TV{T: tup.At(0).Type(), S: idx})
	ok := vc.freshConst("selok", "Bool")
	tv.Tup = append(tv.Tup, TV{T: tup.At(1).Type(), S: ok})
	ri := 2
	for i, s := range x.States {
		if s.Dir == types.RecvOnly {
			t := tup.At(ri).Type()
			v := vc.freshConst("selrecv", vc.sortOf(t))
			vc.assume(vc.guard(), vc.typeInv(t, v, st))
			tvv := TV{T: t, S: v}
			tv.Tup = append(tv.Tup, tvv)
			ri++
			vc.selectRecvHook(s.Chan, tvv, eq(idx, ar.ix(int64(i))), st, x.Pos())
			// the chosen receive case has waited for its channel (waitedfor)
			{
				B := types.Typ[types.Bool]
				vc.heapKeySort("#waited", B)
				ch := vc.val(s.Chan).S
				vc.heapWrite(st, "#waited", B, ch, ite(eq(idx, ar.ix(int64(i))), "true", vc.heapRead(st, "#waited", B, ch)))
				// a non-blocking select that took its default branch has polled the channel and found
				// nothing to receive (polledopen)
				if !x.Blocking {
					vc.heapKeySort("#polled", B)
					vc.heapWrite(st, "#polled", B, ch, ite(eq(idx, ar.ix(-1)), "true", vc.heapRead(st, "#polled", B, ch)))
				}
			}
		} else {
			vc.selectSendHook(s.Chan, s.Send, eq(idx, ar.ix(int64(i))), st, x.Pos())
		}
	}
	vc.vals[x] = tv
}

func (vc *VC) goInstr(x *ssa.Go, st *State) {
	vc.assumeNote("goroutines spawned by a function are not followed; their effects on shared state are outside sequential contracts")
	vc.goHook(x, st)
	// the spawned function starts in (a successor of) this state: its preconditions are owed here
	c := x.Common()
	// every goroutine started by a function under contract is recorded (trivially discharged) so that the
	// baseline knows which ones existed: a new one moves work out of the sequential order the contracts
	// describe, and the check reports it
	if vc.fc != nil && vc.inlineDepth == 0 {
		what := "a-function-value"
		if c.IsInvoke() {
			what = c.Method.Name()
		} else if f, ok := c.Value.(*ssa.Function); ok {
			what = funcRelName(f)
		} else if mc, ok := c.Value.(*ssa.MakeClosure); ok {
			if f, ok := mc.Fn.(*ssa.Function); ok {
				what = funcRelName(f)
			}
		}
		vc.oblige("spawn", what, "true", x.Pos())
	}
	if _, ok := c.Value.(*ssa.Builtin); ok || c.IsInvoke() {
		return
	}
	key, fn, _ := vc.calleeKey(c)
	fc := vc.lookupContract(key)
	if fc == nil && fn != nil {
		fc = vc.lookupContract(fn.String())
	}
	if fc == nil || len(fc.Requires) == 0 {
		return
	}
	var args []TV
	for _, a := range c.Args {
		args = append(args, vc.val(a))
	}
	vc.preOnly = true
	vc.applyContract(fc, fn, c, args, nil, st, x.Pos())
	vc.preOnly = false
}

func (vc *VC) deferInstr(x *ssa.Defer, st *State) {
	if vc.loopContaining(x.Block()) != nil {
		vc.unsupportedf("defer inside a loop")
	}
}

func (vc *VC) loopContaining(b *ssa.BasicBlock) *loopInfo {
	for _, li := range vc.loops {
		if li.body[b.Index] {
			return li
		}
	}
	return nil
}

func (vc *VC) runDefers(x *ssa.RunDefers, st *State) {
	for i := len(vc.deferred) - 1; i >= 0; i-- {
		d := vc.deferred[i]
		if !d.Block().Dominates(x.Block()) {
			// conditional defer: executed iff its block was reached on this path
			if vc.reach[d.Block().Index] == "" {
				continue
			}
			before := st.clone()
			saveGuard := vc.reach[vc.cur.Index]
			g := vc.define("deferg", "Bool", and(saveGuard, vc.reach[d.Block().Index]))
			vc.reach[vc.cur.Index] = g
			vc.doCall(d.Common(), nil, st, d.Pos())
			vc.reach[vc.cur.Index] = saveGuard
			// merge
			cond := vc.reach[d.Block().Index]
			keys := map[string]bool{}
			for k := range st.heap {
				keys[k] = true
			}
			for k := range before.heap {
				keys[k] = true
			}
			if st.epoch != before.epoch {
				continue // everything havocked anyway
			}
			for _, k := range sortedKeys(keys) {
				a, b := vc.heapGet(st, k, vc.heapElem[k]), vc.heapGet(before, k, vc.heapElem[k])
				if a != b {
					st.heap[k] = vc.define("H_"+mangle(k), vc.heapSort[k], ite(cond, a, b))
				}
			}
			continue
		}
		vc.doCall(d.Common(), nil, st, d.Pos())
	}
}

