package main

// Ground obligations over the literal command tables of the repository (C14): the tables are
// extracted from the syntax tree of the working tree on every run and compared with the
// classification in /verif/spec/redis_commands.json (specification data).

import (
	"go/types"
	"golang.org/x/tools/go/ssa"
	"golang.org/x/tools/go/ssa/ssautil"
	"encoding/json"
	"fmt"
	"go/ast"
	"go/token"
	"os"
	"path/filepath"
	"sort"
	"strconv"
	"strings"

	"golang.org/x/tools/go/packages"
)

type tableResult struct {
	Name   string
	OK     bool
	Detail string
}

type cmdSpec struct {
	Readonly       []string `json:"readonly"`
	MustNotForward []string `json:"must_not_forward"`
	CarriesValue   []string `json:"reply_carries_stored_value"`
	NeedsPlain     []string `json:"needs_plain_stored_value"`
}

func strLits(cl *ast.CompositeLit) []string {
	var out []string
	for _, e := range cl.Elts {
		if bl, ok := e.(*ast.BasicLit); ok && bl.Kind == token.STRING {
			if s, err := strconv.Unquote(bl.Value); err == nil {
				out = append(out, s)
			}
		}
	}
	return out
}

// stringTable: the string literals that end up in the package-level table `name` of package pkgPath:
// its initialiser and every `for _, x := range []string{...} { name[x] = ... }` in the package.
func (p *Program) stringTable(pkgPath, name string) ([]string, bool) {
	var out []string
	found := false
	packages.Visit(p.pkgs, nil, func(pp *packages.Package) {
		if pp.Types == nil || pp.Types.Path() != pkgPath {
			return
		}
		for _, f := range pp.Syntax {
			if strings.HasSuffix(pp.Fset.Position(f.Pos()).Filename, "_test.go") {
				continue
			}
			ast.Inspect(f, func(n ast.Node) bool {
				switch x := n.(type) {
				case *ast.ValueSpec:
					for i, nm := range x.Names {
						if nm.Name == name && i < len(x.Values) {
							if cl, ok := x.Values[i].(*ast.CompositeLit); ok {
								out = append(out, strLits(cl)...)
								found = true
							}
						}
					}
				case *ast.RangeStmt:
					cl, ok := x.X.(*ast.CompositeLit)
					if !ok {
						return true
					}
					v, ok := x.Value.(*ast.Ident)
					if !ok {
						return true
					}
					hit := false
					ast.Inspect(x.Body, func(m ast.Node) bool {
						as, ok := m.(*ast.AssignStmt)
						if !ok || len(as.Lhs) != 1 {
							return true
						}
						ix, ok := as.Lhs[0].(*ast.IndexExpr)
						if !ok {
							return true
						}
						if id, ok := ix.X.(*ast.Ident); ok && id.Name == name {
							if k, ok := ix.Index.(*ast.Ident); ok && k.Name == v.Name {
								hit = true
							}
						}
						return true
					})
					if hit {
						out = append(out, strLits(cl)...)
						found = true
					}
				}
				return true
			})
		}
	})
	return out, found
}

// handlerKeys: the command names registered by initCommandHandlers (literal arguments of addHandler and
// tables ranged over).
func (p *Program) handlerKeys(pkgPath string) ([]string, bool) {
	var out []string
	found := false
	packages.Visit(p.pkgs, nil, func(pp *packages.Package) {
		if pp.Types == nil || pp.Types.Path() != pkgPath {
			return
		}
		for _, f := range pp.Syntax {
			for _, d := range f.Decls {
				fd, ok := d.(*ast.FuncDecl)
				if !ok || fd.Name.Name != "initCommandHandlers" || fd.Body == nil {
					continue
				}
				found = true
				ast.Inspect(fd.Body, func(n ast.Node) bool {
					switch x := n.(type) {
					case *ast.RangeStmt:
						if id, ok := x.X.(*ast.Ident); ok {
							calls := false
							ast.Inspect(x.Body, func(m ast.Node) bool {
								if ce, ok := m.(*ast.CallExpr); ok {
									if se, ok := ce.Fun.(*ast.SelectorExpr); ok && se.Sel.Name == "addHandler" {
										calls = true
									}
								}
								return true
							})
							if calls {
								t, _ := p.stringTable(pkgPath, id.Name)
								out = append(out, t...)
							}
						}
					case *ast.CallExpr:
						if se, ok := x.Fun.(*ast.SelectorExpr); ok && se.Sel.Name == "addHandler" && len(x.Args) >= 2 {
							if bl, ok := x.Args[1].(*ast.BasicLit); ok && bl.Kind == token.STRING {
								if s, err := strconv.Unquote(bl.Value); err == nil {
									out = append(out, s)
								}
							}
						}
					}
					return true
				})
			}
		}
	})
	return out, found
}

// runWriterChecks: structural obligations "only the listed functions store to this field".
func runWriterChecks(prog *Program, prop string) []tableResult {
	var res []tableResult
	for _, wc := range prog.cs.Writers {
		has := false
		for _, p := range wc.Props {
			if p == prop {
				has = true
			}
		}
		if !has {
			continue
		}
		allowed := map[string]bool{}
		for _, f := range wc.Funcs {
			allowed[f] = true
		}
		name := "writers/" + wc.Field
		if wc.Closers {
			name = "closers/" + wc.Field
		}
		if wc.Updaters {
			name = "updaters/" + wc.Field
		}
		if wc.Callers {
			name = "callers/" + wc.Field
		}
		var bad []string
		nStores := 0
		for fn := range ssautil.AllFunctions(prog.ssa) {
			if fn.Pkg == nil && fn.Parent() == nil {
				continue
			}
			top := fn
			for top.Parent() != nil {
				top = top.Parent()
			}
			if top.Pkg == nil || !strings.HasPrefix(top.Pkg.Pkg.Path(), prog.module) {
				continue
			}
			rel := funcRelName(top)
			if wc.Callers {
				full := strings.TrimPrefix(strings.TrimPrefix(top.Pkg.Pkg.Path(), prog.module), "/") + "." + rel
				for _, b := range fn.Blocks {
					for _, ins := range b.Instrs {
						ci, ok := ins.(ssa.CallInstruction)
						if !ok {
							continue
						}
						callee := ci.Common().StaticCallee()
						if callee == nil || callee.Pkg == nil {
							continue
						}
						cn := strings.TrimPrefix(strings.TrimPrefix(callee.Pkg.Pkg.Path(), prog.module), "/") + "." + funcRelName(callee)
						if cn != wc.Field {
							continue
						}
						nStores++
						if !allowed[full] {
							bad = append(bad, full+" calls it")
						}
					}
				}
				continue
			}
			for _, b := range fn.Blocks {
				for _, ins := range b.Instrs {
					fa, ok := ins.(*ssa.FieldAddr)
					if !ok {
						continue
					}
					pt := fa.X.Type().Underlying().(*types.Pointer).Elem()
					nt, ok := pt.(*types.Named)
					if !ok || nt.Obj().Pkg() == nil || nt.Obj().Pkg().Path() != wc.Pkg {
						continue
					}
					st := pt.Underlying().(*types.Struct)
					if nt.Obj().Name()+"."+st.Field(fa.Field).Name() != wc.Field {
						continue
					}
					if wc.Updaters {
						full := strings.TrimPrefix(strings.TrimPrefix(top.Pkg.Pkg.Path(), prog.module), "/") + "." + rel
						in := allowed[full] || allowed[rel]
						for _, r := range *fa.Referrers() {
							ld, ok := r.(*ssa.UnOp)
							if !ok || ld.Op != token.MUL {
								continue
							}
							for _, u := range *ld.Referrers() {
								ci, ok := u.(ssa.CallInstruction)
								if !ok {
									continue
								}
								callee := ci.Common().StaticCallee()
								if callee == nil || len(ci.Common().Args) == 0 || ci.Common().Args[0] != ssa.Value(ld) {
									continue
								}
								switch callee.Name() {
								case "Inc", "Dec", "Add", "Sub", "Set", "Update", "Store", "Record":
									nStores++
									if !in {
										bad = append(bad, full+" calls "+callee.Name()+" on it")
									}
								}
							}
						}
						continue
					}
					if wc.Closers {
						in := top.Pkg.Pkg.Path() == wc.Pkg && allowed[rel]
						for _, r := range *fa.Referrers() {
							ld, ok := r.(*ssa.UnOp)
							if !ok || ld.Op != token.MUL {
								continue // stores of a new channel are the writers' business
							}
							for _, u := range *ld.Referrers() {
								switch u := u.(type) {
								case *ssa.DebugRef, *ssa.Select:
								case *ssa.UnOp:
									if u.Op != token.ARROW {
										bad = append(bad, fmt.Sprintf("%s.%s uses the channel in an unexpected way (%s)", top.Pkg.Pkg.Path(), rel, u.Op))
									}
								case *ssa.BinOp:
								case ssa.CallInstruction:
									if b, ok := u.Common().Value.(*ssa.Builtin); ok && b.Name() == "close" {
										nStores++
										if !in {
											bad = append(bad, top.Pkg.Pkg.Path()+"."+rel+" closes it")
										}
									} else if b != nil && (b.Name() == "len" || b.Name() == "cap") {
									} else if !in {
										bad = append(bad, top.Pkg.Pkg.Path()+"."+rel+" passes the channel on")
									}
								default:
									if !in {
										bad = append(bad, fmt.Sprintf("%s.%s lets the channel escape (%T)", top.Pkg.Pkg.Path(), rel, u))
									}
								}
							}
						}
						continue
					}
					for _, r := range *fa.Referrers() {
						switch u := r.(type) {
						case *ssa.UnOp, *ssa.DebugRef:
						case *ssa.Store:
							if u.Addr == ssa.Value(fa) {
								nStores++
								if !(top.Pkg.Pkg.Path() == wc.Pkg && allowed[rel]) {
									bad = append(bad, top.Pkg.Pkg.Path()+"."+rel+" stores to it")
								}
							} else {
								bad = append(bad, top.Pkg.Pkg.Path()+"."+rel+" stores its address")
							}
						case *ssa.IndexAddr:
							// an array field: element reads are fine, element stores are stores to the field
							for _, r2 := range *u.Referrers() {
								switch u2 := r2.(type) {
								case *ssa.UnOp, *ssa.DebugRef:
								case *ssa.Store:
									if u2.Addr == ssa.Value(u) {
										nStores++
										if !(top.Pkg.Pkg.Path() == wc.Pkg && allowed[rel]) {
											bad = append(bad, top.Pkg.Pkg.Path()+"."+rel+" stores to an element of it")
										}
									} else {
										bad = append(bad, top.Pkg.Pkg.Path()+"."+rel+" stores the address of an element")
									}
								default:
									if !(top.Pkg.Pkg.Path() == wc.Pkg && allowed[rel]) {
										bad = append(bad, fmt.Sprintf("%s.%s lets the address of an element escape (%T)", top.Pkg.Pkg.Path(), rel, r2))
									}
								}
							}
						default:
							if !(top.Pkg.Pkg.Path() == wc.Pkg && allowed[rel]) {
								bad = append(bad, fmt.Sprintf("%s.%s lets its address escape (%T)", top.Pkg.Pkg.Path(), rel, r))
							}
						}
					}
				}
			}
		}
		for _, f := range wc.Funcs {
			if wc.Updaters || wc.Callers {
				i := strings.Index(f, ".")
				key := prog.module + "/" + f[:i] + "." + f[i+1:]
				if strings.HasPrefix(f, ".") {
					key = prog.module + f
				}
				if fc := prog.cs.Funcs[key]; fc == nil {
					bad = append(bad, f+" has no contract")
				}
				continue
			}
			fc := prog.cs.Funcs[wc.Pkg+"."+f]
			if fc == nil {
				bad = append(bad, f+" has no contract")
				continue
			}
			okp := false
			for _, p := range fc.Props {
				if p == prop {
					okp = true
				}
			}
			if !okp {
				bad = append(bad, f+" is not under contract for "+prop)
			}
		}
		sort.Strings(bad)
		r := tableResult{Name: name, OK: len(bad) == 0}
		r.Detail = fmt.Sprintf("%d stores to %s.%s in the module, all inside %s", nStores, wc.Pkg, wc.Field, strings.Join(wc.Funcs, ", "))
		if wc.Updaters {
			r.Detail = fmt.Sprintf("%d updates of the cell in %s.%s in the module, all inside %s", nStores, wc.Pkg, wc.Field, strings.Join(wc.Funcs, ", "))
		}
		if wc.Callers {
			r.Detail = fmt.Sprintf("%d calls of %s in the module, all inside %s", nStores, wc.Field, strings.Join(wc.Funcs, ", "))
		}
		if wc.Closers {
			r.Detail = fmt.Sprintf("%d close() of the channel in %s.%s in the module, all inside %s; the channel value travels nowhere else", nStores, wc.Pkg, wc.Field, strings.Join(wc.Funcs, ", "))
		}
		if !r.OK {
			r.Detail = strings.Join(bad, "; ")
		}
		res = append(res, r)
	}
	return res
}

func runTableChecks(prog *Program, prop string) []tableResult {
	if prop == "C13" {
		return append(runWriterChecks(prog, prop), compressTableChecks(prog)...)
	}
	if prop != "C14" && prop != "C12" && prop != "C03" {
		return runWriterChecks(prog, prop)
	}
	res := runWriterChecks(prog, prop)
	data, err := os.ReadFile(filepath.Join(specDir, "redis_commands.json"))
	var spec cmdSpec
	if err != nil || json.Unmarshal(data, &spec) != nil {
		return []tableResult{{Name: "table/spec-file", OK: false, Detail: "cannot read redis_commands.json"}}
	}
	ro := map[string]bool{}
	for _, c := range spec.Readonly {
		ro[c] = true
	}
	banned := map[string]bool{}
	for _, c := range spec.MustNotForward {
		banned[c] = true
	}
	pkg := prog.module + "/proc/redis"
	rotab, ok1 := prog.stringTable(pkg, "readOnlyCommands")
	hk, ok2 := prog.handlerKeys(pkg)
	if !ok1 || len(rotab) == 0 {
		res = append(res, tableResult{Name: "table/readOnlyCommands-extracted", OK: false, Detail: "the read-only table could not be extracted from the syntax tree"})
	}
	if !ok2 || len(hk) == 0 {
		res = append(res, tableResult{Name: "table/handler-keys-extracted", OK: false, Detail: "the handler table could not be extracted from initCommandHandlers"})
	}
	sort.Strings(rotab)
	sort.Strings(hk)
	// one obligation per entry: named by the entry, so that each defect is identified separately
	for _, c := range rotab {
		if prop != "C14" {
			// the read-only classification is C14's business; C12 and C03 only need the handler table
			break
		}
		r := tableResult{Name: "table/read-only-entry-is-read-only-in-redis/" + c, OK: ro[strings.ToLower(c)]}
		r.Detail = fmt.Sprintf("readOnlyCommands contains %q; Redis flags it %s", c, map[bool]string{true: "readonly", false: "as a write command: it may be routed to a replica under the REPLICA/BOTH strategies"}[r.OK])
		if !r.OK {
			r.Detail += "; " + replayWriteToReplica(prog, c)
		}
		res = append(res, r)
	}
	for _, c := range hk {
		r := tableResult{Name: "table/handled-command-may-be-forwarded/" + c, OK: !banned[strings.ToLower(c)] || isLocal(c)}
		r.Detail = fmt.Sprintf("the handler table registers %q", c)
		if !r.OK {
			r.Detail += "; it is in the must-not-forward list (multi-key/transaction/pub-sub/blocking/administrative)"
		}
		res = append(res, r)
	}
	// lower-case keys only: findHandler lower-cases the client's command name
	for _, c := range hk {
		if c != strings.ToLower(c) {
			res = append(res, tableResult{Name: "table/handler-key-is-lower-case/" + c, OK: false, Detail: "findHandler looks commands up in lower case; this key can never match"})
		}
	}
	return res
}

// commands answered by the proxy itself
func isLocal(c string) bool {
	switch c {
	case "ping", "quit", "select", "info", "time", "hotkey":
		return true
	}
	return false
}

// replayWriteToReplica: routes the write command through the real chooseHost under the REPLICA strategy.
func replayWriteToReplica(prog *Program, cmd string) string {
	dir, _ := os.MkdirTemp("/var/tmp", "govc-replay-")
	defer os.RemoveAll(dir)
	src := fmt.Sprintf(`package redis

import (
	"testing"

	redispb "github.com/samaritan-proxy/samaritan/pb/config/protocol/redis"
)

func TestGovcReplayWriteToReplica(t *testing.T) {
	cfg := makeDefaultConfig()
	cfg.GetRedisOption().ReadStrategy = redispb.ReadStrategy_REPLICA
	u := newTestUpstream(cfg)
	master := &instance{ID: "m", Addr: "10.0.0.1:7000"}
	master.Replicas = []*instance{{ID: "r", Addr: "10.0.0.2:7000", MasterID: "m"}}
	for i := range u.slots {
		u.slots[i] = master
	}
	req := newSimpleRequest(newStringArray(%q, "key", "1", "2", "member"))
	addr, err := u.chooseHost([]byte("key"), req)
	if err == nil && addr != master.Addr {
		t.Fatalf("REPLAY-VIOLATION the write command %%s is routed to the replica %%s instead of the master %%s under the REPLICA read strategy", %q, addr, master.Addr)
	}
}
`, cmd, strings.ToUpper(cmd))
	failed, out := runOverlayTest(prog.repo, "proc/redis", "TestGovcReplayWriteToReplica", src, dir)
	if failed {
		for _, l := range strings.Split(out, "\n") {
			if strings.Contains(l, "REPLAY-VIOLATION") {
				return "replayed on the real code: " + strings.TrimSpace(l)
			}
		}
	}
	return "replay on the real code did not reproduce"
}

// compressTableChecks (C13): ground obligations over the two command tables of the compression filter,
// extracted from the working tree's syntax: no command whose reply can carry a stored value skips the
// decompression hook; every command that needs the plain stored value is refused in compress mode.
func compressTableChecks(prog *Program) []tableResult {
	var res []tableResult
	data, err := os.ReadFile(filepath.Join(specDir, "redis_commands.json"))
	var spec cmdSpec
	if err != nil || json.Unmarshal(data, &spec) != nil || len(spec.CarriesValue) == 0 || len(spec.NeedsPlain) == 0 {
		return []tableResult{{Name: "table/spec-file", OK: false, Detail: "cannot read the C13 lists of redis_commands.json"}}
	}
	pkg := prog.module + "/proc/redis"
	skip, ok1 := prog.stringTable(pkg, "wkSkipCheckCmdsInDecps")
	banned, ok2 := prog.stringTable(pkg, "bannedCmdsInCps")
	if !ok1 || len(skip) == 0 {
		res = append(res, tableResult{Name: "table/decompression-skip-table-extracted", OK: false, Detail: "the skip table could not be extracted from the syntax tree"})
	}
	if !ok2 || len(banned) == 0 {
		res = append(res, tableResult{Name: "table/compress-banned-table-extracted", OK: false, Detail: "the banned table could not be extracted from the syntax tree"})
	}
	carries := map[string]bool{}
	for _, c := range spec.CarriesValue {
		carries[c] = true
	}
	sort.Strings(skip)
	for _, c := range skip {
		r := tableResult{Name: "table/skipped-command-never-returns-a-stored-value/" + c, OK: !carries[strings.ToLower(c)] && c == strings.ToLower(c)}
		r.Detail = fmt.Sprintf("wkSkipCheckCmdsInDecps contains %q", c)
		if !r.OK {
			r.Detail += ": its reply can carry a value that was stored compressed (or the key is not lower-case and never matches); the decompression hook would not run for it"
		}
		res = append(res, r)
	}
	has := map[string]bool{}
	for _, c := range banned {
		has[c] = true
	}
	for _, c := range spec.NeedsPlain {
		r := tableResult{Name: "table/refused-in-compress-mode/" + c, OK: has[c]}
		r.Detail = fmt.Sprintf("bannedCmdsInCps must contain %q (it reads or writes inside a stored value)", c)
		res = append(res, r)
	}
	return res
}
