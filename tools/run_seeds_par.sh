#!/bin/sh
# run_seeds_par.sh [jobs]: like run_seeds.sh, but every seed is applied to its own scratch copy of /repo's
# working tree (never to /repo itself), several at a time; one line per seed, sorted.
cd /verif
J=${1:-3}
ls -d seeded/*/ | xargs -n1 basename | xargs -P "$J" -n1 /verif/tools/one_seed.sh | sort
