package main

// Linear completion tokens: a per-activation ghost multiset (Array Loc Int) of the requests this
// activation must complete or hand on exactly once.

import (
	"fmt"
	"go/token"
	"go/types"
	"strings"

	"golang.org/x/tools/go/ssa"
)

const tokKey = "#tok"

func (vc *VC) tokensOn() bool {
	return vc.fc != nil && (vc.fc.Flags["tokens"] || len(vc.fc.Consumes) > 0 || len(vc.fc.Transfers) > 0)
}

func (vc *VC) tokSort() types.Type { return types.Typ[types.Int] }

func (vc *VC) tokZero() string { return "((as const (Array Loc Int)) 0)" }

func (vc *VC) tokGet(st *State) string {
	vc.heapKeySort(tokKey, vc.tokSort())
	if h, ok := st.heap[tokKey]; ok {
		return h
	}
	st.heap[tokKey] = vc.tokZero()
	return st.heap[tokKey]
}

func (vc *VC) tokAdd(st *State, loc, delta string) {
	t := vc.tokGet(st)
	st.heap[tokKey] = vc.define("tok", "(Array Loc Int)", sx("store", t, loc, sx("+", sx("select", t, loc), delta)))
}

// tokConsume: the activation must hold a token for loc (obligation) and gives it up (under cond).
func (vc *VC) tokConsume(st *State, loc, cond, what string, pos token.Pos) {
	t := vc.tokGet(st)
	vc.oblige("token", "hold:"+what, imp(cond, sx(">=", sx("select", t, loc), "1")), pos)
	vc.tokAdd(st, loc, ite(cond, "(- 1)", "0"))
}

func (vc *VC) tokEntry(st *State) {
	if !vc.tokensOn() {
		return
	}
	st.heap[tokKey] = vc.tokZero()
	st.heap[freshKey] = "((as const (Array Loc Bool)) false)"
	vc.heapKeySort(freshKey, types.Typ[types.Bool])
	env := vc.newEnv(st, st)
	vc.tokParams = map[int]string{}
	for i, c := range vc.fc.Consumes {
		if c.Captured {
			continue
		}
		tv := vc.tr(c.E, env)
		loc := vc.define("tokparam", "Loc", tv.S)
		vc.tokParams[i] = loc
		vc.tokAdd(st, loc, "1")
	}
}

const freshKey = "#tokfresh"

// tokReturn: at a return every token must have been completed or handed on; a conditionally consumed
// parameter stays with the caller when the condition is false.
func (vc *VC) tokReturn(st *State, env *Env, pos token.Pos) {
	if !vc.tokensOn() {
		return
	}
	want := vc.tokZero()
	for i, c := range vc.fc.Consumes {
		if c.Cond == nil || c.Captured {
			continue
		}
		loc, ok := vc.tokParams[i]
		if !ok {
			continue
		}
		cond := vc.trBool(c.Cond, env)
		want = sx("store", want, loc, sx("+", sx("select", want, loc), ite(cond, "0", "1")))
	}
	// pointwise: every request is settled; a request created by this very activation may also be
	// abandoned before it was handed to anyone (nobody waits for it)
	t := vc.tokGet(st)
	fresh := st.heap[freshKey]
	if fresh == "" {
		fresh = "((as const (Array Loc Bool)) false)"
	}
	cond := fmt.Sprintf("(forall ((x!t Loc)) (or (= (select %s x!t) (select %s x!t)) (and (select %s x!t) (= (select %s x!t) (+ (select %s x!t) 1)))))", t, want, fresh, t, want)
	vc.oblige("token", "balance-at-return", cond, pos)
}

func (vc *VC) isTokChan(ch ssa.Value) bool {
	ld, ok := ch.(*ssa.UnOp)
	if !ok || ld.Op != token.MUL {
		return false
	}
	fa, ok := ld.X.(*ssa.FieldAddr)
	if !ok {
		return false
	}
	pt := fa.X.Type().Underlying().(*types.Pointer).Elem()
	n, ok := pt.(*types.Named)
	if !ok {
		return false
	}
	name := n.Obj().Name() + "." + pt.Underlying().(*types.Struct).Field(fa.Field).Name()
	for _, tc := range vc.prog.cs.TokChans {
		if tc == name {
			return true
		}
	}
	return false
}

func (vc *VC) chanFieldName(ch ssa.Value) string {
	ld, ok := ch.(*ssa.UnOp)
	if !ok || ld.Op != token.MUL {
		return ""
	}
	fa, ok := ld.X.(*ssa.FieldAddr)
	if !ok {
		return ""
	}
	pt := fa.X.Type().Underlying().(*types.Pointer).Elem()
	n, ok := pt.(*types.Named)
	if !ok {
		return ""
	}
	return n.Obj().Name() + "." + pt.Underlying().(*types.Struct).Field(fa.Field).Name()
}

// chanInv: payload invariants of the channel (as a predicate over the term v), if any.
func (vc *VC) chanInv(ch ssa.Value, v TV, st *State) (string, bool) {
	name := vc.chanFieldName(ch)
	if name == "" {
		return "", false
	}
	var cs []string
	for _, ci := range vc.prog.cs.ChanInvs {
		if ci.Field != name || ci.Pkg != vc.pkg.Path() {
			continue
		}
		env := vc.newEnv(st, vc.entrySt)
		env.vars[ci.Var] = v
		cs = append(cs, vc.trBool(ci.E, env))
	}
	if len(cs) == 0 {
		return "", false
	}
	return and(cs...), true
}

// ---------------------------------------------------------------------------
// FIFO channels: the k-th message received on a channel is the k-th message sent on it. fifo(ch, k) is
// the (never changing) log of everything ever sent on ch; sendn counts the sends, recvn the receives.
// Both counters survive havoc: they are only advanced by the sends/receives of the function at hand
// (single sender / single receiver goroutine per tracked channel: stated as an assumption).

func (vc *VC) isFifoChan(ch ssa.Value) bool {
	ld, ok := ch.(*ssa.UnOp)
	if !ok || ld.Op != token.MUL {
		return false
	}
	fa, ok := ld.X.(*ssa.FieldAddr)
	if !ok {
		return false
	}
	pt := fa.X.Type().Underlying().(*types.Pointer).Elem()
	n, ok := pt.(*types.Named)
	if !ok {
		return false
	}
	name := n.Obj().Name() + "." + pt.Underlying().(*types.Struct).Field(fa.Field).Name()
	for _, tc := range vc.prog.cs.FifoChans {
		if tc == name {
			return true
		}
	}
	return false
}

func (vc *VC) fifoFn() string { return vc.fifoFnFor(nil) }

// fifoFnFor: the log function for channels whose element type is elem (one function per SMT sort).
func (vc *VC) fifoFnFor(elem types.Type) string {
	vc.heapKeySort("#fifo.sendn", types.Typ[types.Int])
	vc.heapKeySort("#fifo.recvn", types.Typ[types.Int])
	sort := "Loc"
	if elem != nil {
		sort = vc.sortOf(elem)
	}
	name := "fifo!log_" + mangle(sort)
	if !vc.declared[name] {
		vc.declared[name] = true
		vc.decls = append(vc.decls, fmt.Sprintf("(declare-fun %s (Loc Int) %s)", name, sort))
	}
	return name
}

func chanElem(ch ssa.Value) types.Type {
	if ct, ok := ch.Type().Underlying().(*types.Chan); ok {
		return ct.Elem()
	}
	return nil
}

func (vc *VC) fifoSend(ch ssa.Value, val TV, cond string, st *State) {
	if !vc.isFifoChan(ch) {
		return
	}
	f := vc.fifoFnFor(chanElem(ch))
	I := types.Typ[types.Int]
	c := vc.val(ch).S
	n := vc.heapRead(st, "#fifo.sendn", I, c)
	vc.assumeNote("tracked channels have one sending and one receiving goroutine; messages are delivered in the order sent")
	vc.assume(vc.guard(), imp(cond, eq(sx(f, c, n), val.S)))
	vc.assume(vc.guard(), sx("<=", "0", n))
	vc.heapWrite(st, "#fifo.sendn", I, c, ite(cond, sx("+", n, "1"), n))
}

func (vc *VC) fifoRecv(ch ssa.Value, v TV, cond string, st *State) {
	if !vc.isFifoChan(ch) {
		return
	}
	f := vc.fifoFnFor(chanElem(ch))
	I := types.Typ[types.Int]
	c := vc.val(ch).S
	n := vc.heapRead(st, "#fifo.recvn", I, c)
	vc.assumeNote("tracked channels have one sending and one receiving goroutine; messages are delivered in the order sent")
	vc.assume(vc.guard(), imp(cond, eq(v.S, sx(f, c, n))))
	vc.assume(vc.guard(), sx("<=", "0", n))
	vc.heapWrite(st, "#fifo.recvn", I, c, ite(cond, sx("+", n, "1"), n))
}

// sendPre: "callpre send:<field> @label e" clauses are checked at sends on that channel (arg0 = the
// value being sent), before the send takes effect.
func (vc *VC) sendPre(ch, val ssa.Value, cond string, st *State, pos token.Pos) {
	if vc.fc == nil {
		return
	}
	for i, cp := range vc.fc.CallPres {
		if cp.Callee != "send:"+chanName(ch) {
			continue
		}
		env := vc.newEnv(st, vc.entrySt)
		env.vars["arg0"] = vc.val(val)
		label := cp.C.Label
		if label == "" {
			label = fmt.Sprintf("callpre%d", i)
		}
		vc.oblige("callpre", cp.Callee+":"+label, imp(cond, vc.trBool(cp.C.E, env)), pos)
		vc.callPreHit[i]++
	}
}

func (vc *VC) sendHook(ch, val ssa.Value, st *State, pos token.Pos) {
	vc.sendPre(ch, val, "true", st, pos)
	vc.fifoSend(ch, vc.val(val), "true", st)
	if inv, ok := vc.chanInv(ch, vc.val(val), st); ok {
		vc.oblige("chan-payload", "send on "+chanName(ch), inv, pos)
	}
	if vc.tokensOn() && vc.isTokChan(ch) {
		vc.tokConsume(st, vc.val(val).S, "true", "send on "+chanName(ch), pos)
	}
}

func (vc *VC) selectSendHook(ch, val ssa.Value, cond string, st *State, pos token.Pos) {
	vc.sendPre(ch, val, cond, st, pos)
	vc.fifoSend(ch, vc.val(val), cond, st)
	if inv, ok := vc.chanInv(ch, vc.val(val), st); ok {
		vc.oblige("chan-payload", "send on "+chanName(ch), imp(cond, inv), pos)
	}
	if vc.tokensOn() && vc.isTokChan(ch) {
		vc.tokConsume(st, vc.val(val).S, cond, "send on "+chanName(ch), pos)
	}
}

func (vc *VC) recvHook(ch ssa.Value, v TV, st *State, pos token.Pos) {
	vc.fifoRecv(ch, v, "true", st)
	if inv, ok := vc.chanInv(ch, v, st); ok {
		vc.assume(vc.guard(), inv)
	}
	if vc.tokensOn() && vc.isTokChan(ch) {
		vc.tokAdd(st, v.S, "1")
	}
}

func (vc *VC) selectRecvHook(ch ssa.Value, v TV, cond string, st *State, pos token.Pos) {
	vc.fifoRecv(ch, v, cond, st)
	if inv, ok := vc.chanInv(ch, v, st); ok {
		vc.assume(vc.guard(), imp(cond, inv))
	}
	if vc.tokensOn() && vc.isTokChan(ch) {
		vc.tokAdd(st, v.S, ite(cond, "1", "0"))
	}
}

func (vc *VC) goHook(x *ssa.Go, st *State) {}

func chanName(ch ssa.Value) string {
	if ld, ok := ch.(*ssa.UnOp); ok {
		if fa, ok := ld.X.(*ssa.FieldAddr); ok {
			pt := fa.X.Type().Underlying().(*types.Pointer).Elem()
			return pt.Underlying().(*types.Struct).Field(fa.Field).Name()
		}
	}
	return "channel"
}

// tokCall: token effects of a call according to the callee's contract.
func (vc *VC) tokCall(fc *FuncContract, fn *ssa.Function, c *ssa.CallCommon, args []TV, names []string, res *TV, pre, post *Env, st *State, pos token.Pos) {
	if !vc.tokensOn() {
		return
	}
	argOf := func(name string) (TV, ssa.Value, bool) {
		for i, n := range names {
			if n == name && i < len(args) {
				var sv ssa.Value
				j := i
				if c.IsInvoke() {
					j = i - 1
				}
				if j >= 0 && j < len(c.Args) {
					sv = c.Args[j]
				}
				return args[i], sv, true
			}
		}
		if strings.HasPrefix(name, "arg") {
			var k int
			if _, err := fmt.Sscanf(name, "arg%d", &k); err == nil && k < len(args) {
				var sv ssa.Value
				if k < len(c.Args) {
					sv = c.Args[k]
				}
				return args[k], sv, true
			}
		}
		return TV{}, nil, false
	}
	for _, cn := range fc.Consumes {
		var a TV
		var sv ssa.Value
		ok := false
		if cn.Captured {
			a, sv, ok = argOf(cn.Param)
		} else if id, isId := cn.E.(*EIdent); isId {
			a, sv, ok = argOf(id.Name)
		}
		if !ok && !cn.Captured {
			// general expression over the callee's parameters, evaluated before the call
			a = vc.tr(cn.E, pre)
			ok = true
		}
		if !ok {
			vc.unsupportedf("contract: %s consumes %s: cannot bind the argument", fc.Name, cn.Param)
			continue
		}
		cond := "true"
		if cn.Cond != nil {
			cond = vc.define("tokcond", "Bool", vc.trBool(cn.Cond, post))
		}
		if cn.Captured {
			mc, ok := sv.(*ssa.MakeClosure)
			if !ok {
				continue // not a closure literal: nothing is transferred
			}
			cfn := mc.Fn.(*ssa.Function)
			ckey, _, _ := vc.calleeKeyOfFunc(cfn)
			cfc := vc.lookupContract(ckey)
			if cfc == nil {
				continue
			}
			for _, cc := range cfc.Consumes {
				for i, fv := range cfn.FreeVars {
					if fv.Name() != cc.Param || i >= len(mc.Bindings) {
						continue
					}
					b := mc.Bindings[i]
					loc := vc.val(b).S
					// captured by reference: the token belongs to the pointer stored in the cell
					if al, ok := b.(*ssa.Alloc); ok {
						if sv2, ok := vc.constCellAt(al, mc); ok {
							loc = vc.val(sv2).S
						}
					}
					vc.tokConsume(st, loc, cond, "closure "+cfn.Name()+" captures "+fv.Name(), pos)
				}
			}
			continue
		}
		vc.tokConsume(st, a.S, cond, fc.Name+"("+cn.Param+")", pos)
	}
	for _, p := range fc.Produces {
		if res == nil {
			continue
		}
		idx := -1
		if p == "result" || p == "result0" {
			idx = 0
		}
		var sig *types.Signature
		if fn != nil {
			sig = fn.Signature
		} else {
			sig = c.Signature()
		}
		for i := 0; i < sig.Results().Len(); i++ {
			if sig.Results().At(i).Name() == p || (i < len(fc.Results) && fc.Results[i] == p) || p == fmt.Sprintf("result%d", i) {
				idx = i
			}
		}
		if idx >= 0 {
			r := *res
			if len(res.Tup) > idx {
				r = res.Tup[idx]
			} else if len(res.Tup) > 0 {
				continue
			}
			vc.tokAdd(st, r.S, ite(eq(r.S, "lnil"), "0", "1"))
			f := st.heap[freshKey]
			if f == "" {
				f = "((as const (Array Loc Bool)) false)"
			}
			st.heap[freshKey] = vc.define("tokfresh", "(Array Loc Bool)", sx("store", f, r.S, "true"))
		}
	}
}

func (vc *VC) calleeKeyOfFunc(fn *ssa.Function) (string, *ssa.Function, string) {
	root := fn
	for root.Parent() != nil {
		root = root.Parent()
	}
	if root.Pkg != nil {
		return root.Pkg.Pkg.Path() + "." + funcRelName(fn), fn, funcRelName(fn)
	}
	return fn.String(), fn, fn.String()
}

// tokTransfers: caller-side directive `transfers <callee> <expr>`.
func (vc *VC) tokTransfers(key string, fn *ssa.Function, st *State, pos token.Pos) {
	if !vc.tokensOn() || vc.inlineDepth > 0 {
		return
	}
	for i, tr := range vc.fc.Transfers {
		if !strings.Contains(key, tr.Callee) && !(fn != nil && strings.Contains(fn.String(), tr.Callee)) {
			continue
		}
		env := vc.newEnv(st, vc.entrySt)
		tv := vc.tr(tr.E, env)
		vc.tokConsume(st, tv.S, "true", "rides on the request passed to "+tr.Callee, pos)
		vc.transferHit[i]++
	}
}
