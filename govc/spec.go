package main

import (
	"fmt"
	"go/types"
	"sort"
	"strings"
)

type specInfo struct {
	name     string
	keys     []string
	params   []types.Type
	ret      types.Type
	defined  bool
	progress bool
}

func (vc *VC) specPkg(sf *SpecFunc) *types.Package {
	if sf.Pkg != "" {
		if p := vc.prog.typesPkg(sf.Pkg); p != nil {
			return p
		}
	}
	return vc.pkg
}

func (vc *VC) ensureSpec(sf *SpecFunc) *specInfo {
	if si, ok := vc.specInfos[sf.Name]; ok {
		return si
	}
	pkg := vc.specPkg(sf)
	si := &specInfo{name: "sp_" + sf.Name}
	vc.specInfos[sf.Name] = si
	for _, p := range sf.Params {
		si.params = append(si.params, vc.parseType(p.Type, pkg))
	}
	si.ret = vc.parseType(sf.Ret, pkg)
	mode := "int"
	if vc.ar.BV {
		mode = "bv"
	}
	uninterp := sf.Body == nil || (sf.Mode != "" && sf.Mode != mode)
	var psorts []string
	for _, t := range si.params {
		psorts = append(psorts, vc.sortOf(t))
	}
	if uninterp {
		// contents of slice parameters matter: pass their element heaps
		seen := map[string]bool{}
		for _, t := range si.params {
			if s, ok := t.Underlying().(*types.Slice); ok && !isStruct(s.Elem()) {
				k := elemKey(s.Elem())
				if !seen[k] {
					seen[k] = true
					vc.heapKeySort(k, s.Elem())
					si.keys = append(si.keys, k)
				}
			}
		}
		var hs []string
		for _, k := range si.keys {
			hs = append(hs, vc.heapSort[k])
		}
		vc.specDefs = append(vc.specDefs, fmt.Sprintf("(declare-fun %s (%s) %s)", si.name, strings.Join(append(hs, psorts...), " "), vc.sortOf(si.ret)))
		si.defined = true
		return si
	}
	translate := func(keys []string) (string, []string) {
		env := &Env{vars: map[string]TV{}, pkg: pkg, specHeap: map[string]string{}, inSpec: sf.Name}
		var ks []string
		env.specKeys = &ks
		for _, k := range keys {
			env.specHeap[k] = "hp_" + mangle(k)
			ks = append(ks, k)
		}
		for i, p := range sf.Params {
			env.vars[p.Name] = TV{T: si.params[i], S: "a_" + p.Name}
		}
		body := vc.tr(sf.Body, env)
		body = vc.coerceTo(body, si.ret)
		return body.S, ks
	}
	si.progress = true
	_, keys := translate(nil)
	sort.Strings(keys)
	si.keys = keys
	nDefs := len(vc.specDefs)
	body, keys2 := translate(keys)
	_ = nDefs
	if len(keys2) != len(keys) {
		sort.Strings(keys2)
		si.keys = keys2
		body, _ = translate(keys2)
	}
	si.progress = false
	var ps []string
	for _, k := range si.keys {
		ps = append(ps, fmt.Sprintf("(hp_%s %s)", mangle(k), vc.heapSort[k]))
	}
	for i, p := range sf.Params {
		ps = append(ps, fmt.Sprintf("(a_%s %s)", p.Name, psorts[i]))
	}
	if sf.Opaque && !vc.oracle && !sf.Rec {
		var ss, as []string
		for _, k := range si.keys {
			ss = append(ss, vc.heapSort[k])
			as = append(as, "hp_"+mangle(k))
		}
		ss = append(ss, psorts...)
		for _, p := range sf.Params {
			as = append(as, "a_"+p.Name)
		}
		app := sx(si.name, as...)
		vc.specDefs = append(vc.specDefs, fmt.Sprintf("(declare-fun %s (%s) %s)", si.name, strings.Join(ss, " "), vc.sortOf(si.ret)))
		if len(ps) > 0 {
			vc.specDefs = append(vc.specDefs, fmt.Sprintf("(assert (forall (%s) (! (= %s %s) :pattern (%s))))", strings.Join(ps, " "), app, body, app))
		} else {
			vc.specDefs = append(vc.specDefs, fmt.Sprintf("(assert (= %s %s))", app, body))
		}
	} else if sf.Rec && vc.oracle {
		vc.specDefs = append(vc.specDefs, fmt.Sprintf("(define-fun-rec %s (%s) %s %s)", si.name, strings.Join(ps, " "), vc.sortOf(si.ret), body))
	} else if sf.Rec {
		// recursive spec functions are uninterpreted; their definition is
		// available only through explicit `unfold` instances (no matching loops)
		var ss []string
		for _, k := range si.keys {
			ss = append(ss, vc.heapSort[k])
		}
		ss = append(ss, psorts...)
		vc.specDefs = append(vc.specDefs, fmt.Sprintf("(declare-fun %s (%s) %s)", si.name, strings.Join(ss, " "), vc.sortOf(si.ret)))
	} else {
		vc.specDefs = append(vc.specDefs, fmt.Sprintf("(define-fun %s (%s) %s %s)", si.name, strings.Join(ps, " "), vc.sortOf(si.ret), body))
	}
	si.defined = true
	return si
}

func (vc *VC) coerceTo(v TV, t types.Type) TV {
	if v.Untyped {
		return vc.coerceInt(v, t)
	}
	return v
}

func (vc *VC) specCall(sf *SpecFunc, args []Expr, env *Env) TV {
	si := vc.ensureSpec(sf)
	if len(args) != len(si.params) {
		return vc.errTV("spec %s: %d args, want %d", sf.Name, len(args), len(si.params))
	}
	var as []string
	for _, k := range si.keys {
		if env.specHeap != nil {
			if _, ok := env.specHeap[k]; !ok {
				env.specHeap[k] = "hp_" + mangle(k)
				*env.specKeys = append(*env.specKeys, k)
			}
			as = append(as, env.specHeap[k])
		} else {
			as = append(as, vc.heapGet(env.st, k, vc.heapElem[k]))
		}
	}
	for i, a := range args {
		tv := vc.coerceTo(vc.tr(a, env), si.params[i])
		// integer width adaptation in specs (e.g. int literal typed params)
		if fi, ok := basicInt(tv.T); ok {
			if ti, ok2 := basicInt(si.params[i]); ok2 && vc.ar.BV && fi.bits != ti.bits {
				tv = TV{T: si.params[i], S: vc.ar.conv(fi, ti, tv.S)}
			}
		}
		as = append(as, tv.S)
	}
	var t string
	if len(as) == 0 {
		t = si.name
	} else {
		t = sx(si.name, as...)
	}
	if sf.Rec || sf.Body == nil || sf.Opaque {
		// macros (define-fun) expand to connectives and cannot serve as patterns
		vc.notePat(env, t)
	}
	return TV{T: si.ret, S: t}
}

// unfold: the instance  f(args) == body[args]  of a spec function's definition.
func (vc *VC) unfold(e Expr, env *Env) string {
	c, ok := e.(*ECall)
	if !ok {
		vc.unsupportedf("unfold needs a spec call")
		return "true"
	}
	sf, ok := vc.prog.cs.Specs[c.Fn]
	if !ok || sf.Body == nil {
		vc.unsupportedf("unfold: unknown spec %s", c.Fn)
		return "true"
	}
	lhs := vc.tr(e, env)
	e2 := env.child()
	e2.pkg = vc.specPkg(sf)
	si := vc.ensureSpec(sf)
	for i, p := range sf.Params {
		e2.vars[p.Name] = vc.coerceTo(vc.tr(c.Args[i], env), si.params[i])
	}
	rhs := vc.coerceTo(vc.tr(sf.Body, e2), si.ret)
	return eq(lhs.S, rhs.S)
}

// useLemma: instantiate a proved lemma (or trusted axiom).
func (vc *VC) useLemma(e Expr, env *Env) string {
	name := ""
	var args []Expr
	switch x := e.(type) {
	case *EIdent:
		name = x.Name
	case *ECall:
		name, args = x.Fn, x.Args
	}
	for _, l := range vc.prog.cs.Lemmas {
		if l.Name != name {
			continue
		}
		if l.Trusted {
			vc.assumeNote("axiom " + l.Name + ": " + strings.TrimSpace(l.Src))
		}
		vc.lemmasUsed[l.Name] = true
		e2 := env.child()
		if lp := vc.prog.typesPkg(l.Pkg); lp != nil {
			e2.pkg = lp
		}
		body := l.E
		if q, ok := body.(*EQuant); ok && q.Forall && len(args) == len(q.Vars) && len(args) > 0 {
			for i, b := range q.Vars {
				t := vc.parseType(b.Type, e2.pkg)
				e2.vars[b.Name] = vc.coerceTo(vc.tr(args[i], env), t)
			}
			return vc.trBool(q.Body, e2)
		}
		return vc.trBool(body, e2)
	}
	vc.unsupportedf("unknown lemma %s", name)
	return "true"
}
