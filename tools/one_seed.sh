#!/bin/sh
s=$1
prop=$(python3 -c "import json;print(json.load(open(\"/verif/seeded/$s/meta.json\"))[\"property\"])")
D=$(mktemp -d /var/tmp/seedpar-XXXXXX)
rsync -a --exclude .git /repo/ $D/
if ! (cd $D && git apply /verif/seeded/$s/patch.diff) 2>/dev/null; then echo "$s: PATCH-DOES-NOT-APPLY"; rm -rf $D; exit 0; fi
out=$(/verif/bin/govc check -prop $prop -repo $D -no-evidence 2>&1); rc=$?
rm -rf $D
nv=$(echo "$out" | grep -c "^VIOLATION")
conf=$(echo "$out" | grep -c "counterexample replayed")
echo "$s: property $prop exit=$rc violations=$nv replay-confirmed=$conf"
