package main

// Generic replay for side-effect free functions over scalars, strings and byte
// slices. The inputs are read from the solver's counter-model, the REAL function
// is run on them through an injected in-package test (go test -overlay), and
// the observed outputs are judged against the function's own postconditions:
//   * a panic of the real function is a violation by itself (every function under
//     contract carries index / bounds / nil obligations);
//   * otherwise each `ensures` clause is evaluated on the concrete input/output
//     pair by the solver: the clause is translated once more with parameters and
//     results pinned to the observed values (recursive spec functions given as
//     define-fun-rec so that they compute), and `not clause` must be sat.
// Only a violation observed on the real code counts; when the real run satisfies
// every clause the replay reports "not reproduced".

import (
	"context"
	"encoding/hex"
	"fmt"
	"go/types"
	"math/big"
	"os"
	"os/exec"
	"path/filepath"
	"regexp"
	"strings"
	"time"

	"golang.org/x/tools/go/ssa"
)

type pureVal struct {
	T     types.Type
	Kind  string // int | bool | string | bytes | error
	Int   *big.Int
	Bool  bool
	Bytes []byte
	Cap   int64
	Nil   bool
	Alias int   // results: index of the []byte parameter whose array the result points into, or -1
	Off   int64 // byte offset inside that parameter's array (relative to its first element)
}

func pureKind(t types.Type) string {
	switch u := t.Underlying().(type) {
	case *types.Basic:
		if _, ok := basicInt(u); ok && u.Info()&types.IsUntyped == 0 {
			return "int"
		}
		if u.Info()&types.IsBoolean != 0 {
			return "bool"
		}
		if u.Info()&types.IsString != 0 {
			return "string"
		}
	case *types.Slice:
		if b, ok := u.Elem().Underlying().(*types.Basic); ok && b.Kind() == types.Uint8 {
			return "bytes"
		}
	case *types.Interface:
		if types.TypeString(t, nil) == "error" {
			return "error"
		}
	}
	return ""
}

// typeUsable: the type can be written in an in-package test of pkg without an import.
func typeUsable(t types.Type, pkg *types.Package) bool {
	if n, ok := t.(*types.Named); ok {
		return n.Obj().Pkg() == nil || n.Obj().Pkg() == pkg
	}
	return true
}

// pureEligible: plain function (or method that never looks at its receiver) whose parameters are
// scalars, strings and byte slices and whose results are those or error.
func pureEligible(vc *VC) (skipRecv bool, ok bool) {
	fn := vc.fn
	if fn == nil || fn.Parent() != nil || len(fn.FreeVars) > 0 || fn.Pkg == nil || vc.fc == nil {
		return false, false
	}
	params := fn.Params
	if fn.Signature.Recv() != nil {
		if len(params) == 0 {
			return false, false
		}
		for _, r := range *params[0].Referrers() {
			if _, dbg := r.(*ssa.DebugRef); !dbg {
				return false, false
			}
		}
		// the receiver must be constructible as a zero value
		rt := params[0].Type()
		if p, isPtr := rt.Underlying().(*types.Pointer); isPtr {
			rt = p.Elem()
		}
		if !typeUsable(rt, fn.Pkg.Pkg) {
			return false, false
		}
		skipRecv = true
		params = params[1:]
	}
	for _, p := range params {
		k := pureKind(p.Type())
		if k == "" || k == "error" || !typeUsable(p.Type(), fn.Pkg.Pkg) {
			return false, false
		}
	}
	res := fn.Signature.Results()
	if res.Len() == 0 {
		return false, false
	}
	for i := 0; i < res.Len(); i++ {
		if pureKind(res.At(i).Type()) == "" {
			return false, false
		}
	}
	return skipRecv, true
}

func (rc *ReplayCtx) evalBig(signed bool, term string) (*big.Int, bool) {
	vs, ok := rc.Eval(term)
	if !ok {
		return nil, false
	}
	return smtNum(vs[0], signed)
}

// modelInputs reads the parameters' values out of the counter-model.
func (rc *ReplayCtx) modelInputs(params []*ssa.Parameter) ([]pureVal, bool) {
	vc := rc.vc
	var out []pureVal
	for _, p := range params {
		tv := vc.vals[p]
		v := pureVal{T: p.Type(), Kind: pureKind(p.Type()), Alias: -1}
		switch v.Kind {
		case "int":
			ii, _ := basicInt(p.Type())
			n, ok := rc.evalBig(ii.signed, tv.S)
			if !ok {
				return nil, false
			}
			// int-mode models are unbounded only when a range fact is missing: refuse those
			if n.Cmp(ii.min()) < 0 || n.Cmp(ii.max()) > 0 {
				return nil, false
			}
			v.Int = n
		case "bool":
			vs, ok := rc.Eval(tv.S)
			if !ok {
				return nil, false
			}
			v.Bool = strings.TrimSpace(vs[0]) == "true"
		case "string":
			ln, ok := rc.EvalInts(true, sx("slen_", tv.S))
			if !ok || ln[0] < 0 || ln[0] > 4096 {
				return nil, false
			}
			v.Bytes = make([]byte, ln[0])
			if ln[0] > 0 {
				var ts []string
				for i := int64(0); i < ln[0]; i++ {
					ts = append(ts, sx("sat_", tv.S, vc.ar.ix(i)))
				}
				bs, ok := rc.EvalInts(false, ts...)
				if !ok {
					return nil, false
				}
				for i, b := range bs {
					v.Bytes[i] = byte(b)
				}
			}
		case "bytes":
			hdr, ok := rc.EvalInts(true, sx("slen", tv.S), sx("scap", tv.S))
			if !ok || hdr[0] < 0 || hdr[0] > 4096 {
				return nil, false
			}
			v.Cap = hdr[1]
			if v.Cap < hdr[0] || v.Cap > 1<<16 {
				v.Cap = hdr[0]
			}
			nl, ok := rc.Eval(eq(tv.S, vc.nilSlice()))
			v.Nil = ok && strings.TrimSpace(nl[0]) == "true" && hdr[0] == 0
			bs, ok := rc.SliceBytes(tv.S, rc.byteHeap(vc.entrySt), 4096)
			if !ok {
				return nil, false
			}
			v.Bytes = bs
		default:
			return nil, false
		}
		out = append(out, v)
	}
	return out, true
}

func goLit(v pureVal, pkg *types.Package) string {
	ts := types.TypeString(v.T, types.RelativeTo(pkg))
	switch v.Kind {
	case "int":
		return fmt.Sprintf("%s(%s)", ts, v.Int.String())
	case "bool":
		return fmt.Sprintf("%s(%v)", ts, v.Bool)
	case "string":
		return fmt.Sprintf("%s(%s)", ts, goBytes(v.Bytes))
	case "bytes":
		if v.Nil {
			return fmt.Sprintf("%s(nil)", ts)
		}
		return fmt.Sprintf("%s(append(make([]byte, 0, %d), %s...))", ts, v.Cap, goBytes(v.Bytes))
	}
	return "nil"
}

var rePureRes = regexp.MustCompile(`(?m)^REPLAY-RESULT (\d+) (\w+) (.*)$`)

// pureTestSource: a test that calls the function on the inputs and prints what it returned.
func pureTestSource(fn *ssa.Function, skipRecv bool, in []pureVal) (testName, src string) {
	pkg := fn.Pkg.Pkg
	testName = "TestGovcReplayPure"
	var sb strings.Builder
	fmt.Fprintf(&sb, "package %s\n\nimport (\n\t\"encoding/hex\"\n\t\"fmt\"\n\t\"testing\"\n\t\"unsafe\"\n)\n\n", pkg.Name())
	sb.WriteString(`func govcReplayAlias(r []byte, ps ...[]byte) (int, int) {
	if cap(r) == 0 {
		return -1, 0
	}
	rp := uintptr(unsafe.Pointer(&r[:1][0]))
	for i, p := range ps {
		if cap(p) == 0 {
			continue
		}
		pp := uintptr(unsafe.Pointer(&p[:1][0]))
		if rp >= pp && rp < pp+uintptr(cap(p)) {
			return i, int(rp - pp)
		}
	}
	return -1, 0
}

var _ = hex.EncodeToString

`)
	fmt.Fprintf(&sb, "func %s(t *testing.T) {\n", testName)
	var args, slices []string
	sliceIdx := map[int]int{}
	for i, v := range in {
		fmt.Fprintf(&sb, "\tin%d := %s\n", i, goLit(v, pkg))
		args = append(args, fmt.Sprintf("in%d", i))
		if v.Kind == "bytes" {
			sliceIdx[len(slices)] = i
			slices = append(slices, fmt.Sprintf("[]byte(in%d)", i))
		}
	}
	sb.WriteString("\tdefer func() {\n\t\tif r := recover(); r != nil {\n\t\t\tfmt.Printf(\"REPLAY-PANIC %v\\n\", r)\n\t\t\tt.Fatalf(\"REPLAY-VIOLATION the function panics on the counterexample input: %v\", r)\n\t\t}\n\t}()\n")
	callee := fn.Name()
	if skipRecv {
		rt := fn.Params[0].Type()
		if p, isPtr := rt.Underlying().(*types.Pointer); isPtr {
			callee = fmt.Sprintf("new(%s).%s", types.TypeString(p.Elem(), types.RelativeTo(pkg)), fn.Name())
		} else {
			sb.WriteString(fmt.Sprintf("\tvar recv %s\n", types.TypeString(rt, types.RelativeTo(pkg))))
			callee = "recv." + fn.Name()
		}
	}
	res := fn.Signature.Results()
	var rs []string
	for i := 0; i < res.Len(); i++ {
		rs = append(rs, fmt.Sprintf("r%d", i))
	}
	call := fmt.Sprintf("%s(%s)", callee, strings.Join(args, ", "))
	if fn.Signature.Variadic() {
		call = fmt.Sprintf("%s(%s...)", callee, strings.Join(args, ", "))
	}
	fmt.Fprintf(&sb, "\t%s := %s\n", strings.Join(rs, ", "), call)
	for i := 0; i < res.Len(); i++ {
		switch pureKind(res.At(i).Type()) {
		case "int":
			fmt.Fprintf(&sb, "\tfmt.Printf(\"REPLAY-RESULT %d int %%d\\n\", r%d)\n", i, i)
		case "bool":
			fmt.Fprintf(&sb, "\tfmt.Printf(\"REPLAY-RESULT %d bool %%v\\n\", bool(r%d))\n", i, i)
		case "string":
			fmt.Fprintf(&sb, "\tfmt.Printf(\"REPLAY-RESULT %d string x%%s\\n\", hex.EncodeToString([]byte(string(r%d))))\n", i, i)
		case "bytes":
			fmt.Fprintf(&sb, "\t{\n\t\ta, off := govcReplayAlias([]byte(r%d), %s)\n\t\tfmt.Printf(\"REPLAY-RESULT %d bytes %%v %%d %%d %%d %%d x%%s\\n\", r%d == nil, len(r%d), cap(r%d), a, off, hex.EncodeToString([]byte(r%d)))\n\t}\n", i, strings.Join(append([]string{}, slices...), ", "), i, i, i, i, i)
		case "error":
			fmt.Fprintf(&sb, "\tfmt.Printf(\"REPLAY-RESULT %d error %%v\\n\", r%d == nil)\n", i, i)
		}
	}
	sb.WriteString("}\n")
	_ = sliceIdx
	return testName, sb.String()
}

// parsePureResults reads the REPLAY-RESULT lines of the test output.
func parsePureResults(fn *ssa.Function, in []pureVal, out string) ([]pureVal, bool) {
	res := fn.Signature.Results()
	vals := make([]pureVal, res.Len())
	seen := 0
	var sliceParams []int
	for i, v := range in {
		if v.Kind == "bytes" {
			sliceParams = append(sliceParams, i)
		}
	}
	for _, m := range rePureRes.FindAllStringSubmatch(out, -1) {
		var i int
		fmt.Sscanf(m[1], "%d", &i)
		if i >= len(vals) {
			return nil, false
		}
		v := pureVal{T: res.At(i).Type(), Kind: m[2], Alias: -1}
		rest := strings.TrimSpace(m[3])
		switch m[2] {
		case "int":
			n, ok := new(big.Int).SetString(rest, 10)
			if !ok {
				return nil, false
			}
			v.Int = n
		case "bool":
			v.Bool = rest == "true"
		case "string":
			b, err := hex.DecodeString(strings.TrimPrefix(rest, "x"))
			if err != nil {
				return nil, false
			}
			v.Bytes = b
		case "bytes":
			fs := strings.Fields(rest)
			if len(fs) != 6 {
				return nil, false
			}
			v.Nil = fs[0] == "true"
			var ln, a int64
			fmt.Sscanf(fs[1], "%d", &ln)
			fmt.Sscanf(fs[2], "%d", &v.Cap)
			fmt.Sscanf(fs[3], "%d", &a)
			fmt.Sscanf(fs[4], "%d", &v.Off)
			if a >= 0 && int(a) < len(sliceParams) {
				v.Alias = sliceParams[a]
			}
			b, err := hex.DecodeString(strings.TrimPrefix(fs[5], "x"))
			if err != nil || int64(len(b)) != ln {
				return nil, false
			}
			v.Bytes = b
		case "error":
			v.Nil = rest == "true"
		default:
			return nil, false
		}
		vals[i] = v
		seen++
	}
	return vals, seen == len(vals)
}

// pureJudge evaluates every ensures clause of the function on a concrete input/output pair.
// It returns the labels of the clauses the pair violates, those it satisfies and those the solver
// could not evaluate, together with the queries.
func pureJudge(prog *Program, fn *ssa.Function, fc *FuncContract, skipRecv bool, in, out []pureVal, dir string) (violated, held, undecided []string, queries map[string]string) {
	queries = map[string]string{}
	for ci, c := range fc.Ensures {
		label := c.Label
		if label == "" {
			label = fmt.Sprintf("ensures%d", ci)
		}
		vc := newVCMode(prog, fn, fc, fc.Mode, funcRelName(fn), fn.Pkg.Pkg)
		vc.oracle = true
		st := &State{heap: map[string]string{}, epoch: 0}
		st.nextId = vc.declare("nextId0", "Int")
		vc.addFact("assume", sx("<=", "0", st.nextId))
		vc.entrySt = st.clone()
		vc.entryEnv = map[string]TV{}
		env := vc.newEnv(st, st)
		var pins []string
		pin := func(s string) { pins = append(pins, s) }
		byteT := types.Typ[types.Uint8]
		byteInfo, _ := basicInt(byteT)
		pinStr := func(term string, b []byte) {
			pin(eq(sx("slen_", term), vc.ar.ix(int64(len(b)))))
			for i, x := range b {
				pin(eq(sx("sat_", term, vc.ar.ix(int64(i))), vc.ar.num(byteInfo, big.NewInt(int64(x)))))
			}
		}
		byteHeap := func() string { return vc.heapGet(st, elemKey(byteT), byteT) }
		pinBytes := func(term string, b []byte) {
			h := byteHeap()
			for i, x := range b {
				pin(eq(sx("select", h, sx("lelem", sx("sbase", term), vc.ar.ixadd(sx("soff", term), vc.ar.ix(int64(i))))), vc.ar.num(byteInfo, big.NewInt(int64(x)))))
			}
		}
		params := fn.Params
		if skipRecv {
			n := vc.declare("p_"+mangle(params[0].Name()), vc.sortOf(params[0].Type()))
			vc.setVal(params[0], n)
			vc.entryEnv[params[0].Name()] = TV{T: params[0].Type(), S: n}
			params = params[1:]
		}
		var sliceTerms []string
		for i, p := range params {
			n := vc.declare("p_"+mangle(p.Name()), vc.sortOf(p.Type()))
			vc.setVal(p, n)
			vc.entryEnv[p.Name()] = TV{T: p.Type(), S: n}
			env.vars[p.Name()] = TV{T: p.Type(), S: n}
			v := in[i]
			switch v.Kind {
			case "int":
				ii, _ := basicInt(p.Type())
				pin(eq(n, vc.ar.num(ii, v.Int)))
			case "bool":
				pin(eq(n, fmt.Sprint(v.Bool)))
			case "string":
				pinStr(n, v.Bytes)
			case "bytes":
				if v.Nil {
					pin(eq(n, vc.nilSlice()))
				} else {
					pin(eq(sx("slen", n), vc.ar.ix(int64(len(v.Bytes)))))
					pin(eq(sx("scap", n), vc.ar.ix(v.Cap)))
					pin(eq(sx("soff", n), vc.ar.ix(0)))
					pin(sx("<", sx("rt", sx("sbase", n)), st.nextId))
					pin(sx("<=", "0", sx("rt", sx("sbase", n))))
					pin(not(eq(sx("sbase", n), "lnil")))
					for _, o := range sliceTerms {
						pin(not(eq(sx("rt", sx("sbase", n)), sx("rt", sx("sbase", o)))))
					}
					sliceTerms = append(sliceTerms, n)
					pinBytes(n, v.Bytes)
				}
			}
		}
		// results
		sig := fn.Signature
		for i := 0; i < sig.Results().Len(); i++ {
			rt := sig.Results().At(i).Type()
			n := vc.declare(fmt.Sprintf("r_%d", i), vc.sortOf(rt))
			tv := TV{T: rt, S: n}
			if nm := sig.Results().At(i).Name(); nm != "" && nm != "_" {
				env.vars[nm] = tv
			}
			env.vars[fmt.Sprintf("result%d", i)] = tv
			if sig.Results().Len() == 1 {
				env.vars["result"] = tv
			}
			if i < len(fc.Results) {
				env.vars[fc.Results[i]] = tv
			}
			v := out[i]
			switch v.Kind {
			case "int":
				ii, _ := basicInt(rt)
				pin(eq(n, vc.ar.num(ii, v.Int)))
			case "bool":
				pin(eq(n, fmt.Sprint(v.Bool)))
			case "string":
				pinStr(n, v.Bytes)
			case "error":
				if v.Nil {
					pin(eq(sx("ityp", n), "0"))
				} else {
					pin(not(eq(sx("ityp", n), "0")))
				}
			case "bytes":
				switch {
				case v.Nil:
					pin(eq(n, vc.nilSlice()))
				case v.Alias >= 0 && v.Alias < len(params):
					pt := vc.vals[params[v.Alias]].S
					pin(eq(sx("sbase", n), sx("sbase", pt)))
					pin(eq(sx("soff", n), vc.ar.ixadd(sx("soff", pt), vc.ar.ix(v.Off))))
					pin(eq(sx("slen", n), vc.ar.ix(int64(len(v.Bytes)))))
					pin(eq(sx("scap", n), vc.ar.ix(v.Cap)))
				default:
					pin(eq(sx("slen", n), vc.ar.ix(int64(len(v.Bytes)))))
					pin(eq(sx("scap", n), vc.ar.ix(v.Cap)))
					pin(eq(sx("soff", n), vc.ar.ix(0)))
					pin(sx(">=", sx("rt", sx("sbase", n)), st.nextId))
					pin(not(eq(sx("sbase", n), "lnil")))
					pinBytes(n, v.Bytes)
				}
			}
		}
		for _, l := range fc.Lets {
			tv := vc.tr(l.E, env)
			vc.entryEnv[l.Name] = tv
			env.vars[l.Name] = tv
		}
		goal := vc.trBool(c.E, env)
		if len(vc.unsupported) > 0 {
			undecided = append(undecided, label)
			continue
		}
		// the clause must be closed: no uninterpreted spec function may occur
		open := false
		for _, d := range vc.specDefs {
			if strings.HasPrefix(d, "(declare-fun sp_") {
				open = true
			}
		}
		var sb strings.Builder
		sb.WriteString(vc.ar.prelude())
		for _, d := range vc.structDecl {
			sb.WriteString(d + "\n")
		}
		for _, d := range vc.decls {
			sb.WriteString(d + "\n")
		}
		for _, s := range sortedKeys(vc.strLits) {
			pinned := vc.strLits[s]
			fmt.Fprintf(&sb, "(assert (= (slen_ %s) %s))\n", pinned, vc.ar.ix(int64(len(s))))
			for i := 0; i < len(s); i++ {
				fmt.Fprintf(&sb, "(assert (= (sat_ %s %s) %s))\n", pinned, vc.ar.ix(int64(i)), vc.ar.num(byteInfo, big.NewInt(int64(s[i]))))
			}
		}
		for _, d := range vc.romFacts {
			sb.WriteString(d + "\n")
		}
		for _, d := range vc.specDefs {
			sb.WriteString(d + "\n")
		}
		for _, f := range vc.facts {
			fmt.Fprintf(&sb, "(assert %s)\n", f.Term)
		}
		for _, p := range pins {
			fmt.Fprintf(&sb, "(assert %s)\n", p)
		}
		base := sb.String()
		q := base + fmt.Sprintf("(assert (not %s))\n(check-sat)\n", goal)
		queries[label] = q
		if open {
			undecided = append(undecided, label)
			continue
		}
		// the pins themselves must be consistent (otherwise "unsat" would say nothing)
		r0 := runOracle(base+"(check-sat)\n", filepath.Join(dir, fmt.Sprintf("oracle-%d-pins.smt2", ci)))
		if r0 != "sat" {
			undecided = append(undecided, label)
			continue
		}
		switch runOracle(q, filepath.Join(dir, fmt.Sprintf("oracle-%d.smt2", ci))) {
		case "sat":
			violated = append(violated, label)
		case "unsat":
			held = append(held, label)
		default:
			undecided = append(undecided, label)
		}
	}
	return
}

func runOracle(q, file string) string {
	os.WriteFile(file, []byte(q), 0o644)
	for _, s := range []string{"z3-new", "z3"} {
		ctx, cancel := context.WithTimeout(context.Background(), 40*time.Second)
		out, _ := exec.CommandContext(ctx, s, "-t:30000", file).CombinedOutput()
		cancel()
		first := strings.TrimSpace(strings.SplitN(strings.TrimSpace(string(out)), "\n", 2)[0])
		if first == "sat" || first == "unsat" {
			return first
		}
	}
	return "unknown"
}

func describeVals(vs []pureVal) string {
	var ps []string
	for _, v := range vs {
		switch v.Kind {
		case "int":
			ps = append(ps, v.Int.String())
		case "bool":
			ps = append(ps, fmt.Sprint(v.Bool))
		case "string":
			ps = append(ps, fmt.Sprintf("%q", string(v.Bytes)))
		case "bytes":
			if v.Nil {
				ps = append(ps, "[]byte(nil)")
			} else {
				ps = append(ps, fmt.Sprintf("[]byte(%q)", string(v.Bytes)))
			}
		case "error":
			if v.Nil {
				ps = append(ps, "nil")
			} else {
				ps = append(ps, "error")
			}
		}
	}
	return strings.Join(ps, ", ")
}

// replayPure: model -> inputs -> real run -> verdict. reproduced is true only when the real code
// panics or returns something that violates one of its postconditions.
func replayPure(rc *ReplayCtx, skipRecv bool) (reproduced bool, line string) {
	vc, fn := rc.vc, rc.vc.fn
	params := fn.Params
	if skipRecv {
		params = params[1:]
	}
	// a small counterexample first: bound the lengths of strings and slices
	ok := false
	for _, bound := range []int64{8, 64, 1024} {
		rc.extra = nil
		for _, p := range params {
			switch pureKind(p.Type()) {
			case "string":
				rc.extra = append(rc.extra, vc.ar.le(ixInfo, sx("slen_", vc.vals[p].S), vc.ar.ix(bound)))
			case "bytes":
				rc.extra = append(rc.extra, vc.ar.le(ixInfo, sx("slen", vc.vals[p].S), vc.ar.ix(bound)), vc.ar.le(ixInfo, sx("scap", vc.vals[p].S), vc.ar.ix(2*bound)))
			}
		}
		if len(rc.extra) == 0 {
			ok = true
			break
		}
		if _, sat := rc.Eval("true"); sat {
			ok = true
			break
		}
	}
	if !ok {
		rc.extra = nil
	}
	in, ok := rc.modelInputs(params)
	if !ok {
		return false, "the model could not be turned into a concrete input"
	}
	testName, src := pureTestSource(fn, skipRecv, in)
	pkgDir := strings.TrimPrefix(strings.TrimPrefix(fn.Pkg.Pkg.Path(), rc.prog.module), "/")
	failed, out := runOverlayTest(rc.prog.repo, pkgDir, testName, src, rc.dir)
	note := map[string]interface{}{
		"test_source": src,
		"command":     fmt.Sprintf("cd %s && go test -overlay <overlay.json> -vet=off -count=1 -timeout 60s -run '^%s$' ./%s", rc.prog.repo, testName, pkgDir),
		"output":      out,
		"input":       describeVals(in),
		"reproduced":  failed,
	}
	replayNotes[rc.o.Name] = note
	if failed {
		for _, l := range strings.Split(out, "\n") {
			if strings.Contains(l, "REPLAY-VIOLATION") {
				return true, strings.TrimSpace(l) + " [input: " + describeVals(in) + "]"
			}
		}
		return true, "REPLAY-VIOLATION the function panics on the counterexample input"
	}
	res, ok := parsePureResults(fn, in, out)
	if !ok {
		return false, "the replay test did not report its results"
	}
	note["output_values"] = describeVals(res)
	violated, held, undecided, queries := pureJudge(rc.prog, fn, vc.fc, skipRecv, in, res, rc.dir)
	note["oracle"] = map[string]interface{}{
		"method":    "each ensures clause evaluated by the solver on the concrete input/output pair observed on the real code",
		"violated":  violated,
		"satisfied": held,
		"undecided": undecided,
	}
	if len(violated) > 0 {
		note["reproduced"] = true
		note["oracle_query"] = queries[violated[0]]
		return true, fmt.Sprintf("REPLAY-VIOLATION %s(%s) returned (%s) on the real code, which violates its postcondition @%s", fn.Name(), describeVals(in), describeVals(res), strings.Join(violated, ", @"))
	}
	return false, fmt.Sprintf("replay on the real code did not reproduce a violation: %s(%s) returned (%s); clauses satisfied: %v, not evaluable: %v", fn.Name(), describeVals(in), describeVals(res), held, undecided)
}
