package main

import (
	"fmt"
	"go/token"
	"go/types"
	"strings"

	"golang.org/x/tools/go/ssa"
)

// Run generates all obligations of the function.
func (vc *VC) Run() {
	fn := vc.fn
	if len(fn.Blocks) == 0 {
		vc.unsupportedf("function has no body")
		return
	}
	vc.findLoops()
	// entry state
	st := &State{heap: map[string]string{}, epoch: 0}
	st.nextId = vc.declare("nextId0", "Int")
	vc.addFact("assume", sx("<=", "0", st.nextId))
	vc.entrySt = st.clone()
	vc.entryEnv = map[string]TV{}
	// channel sequence counters exist from the start (a call made before the first mention must not
	// look as if it could have changed them)
	if vc.fc != nil && len(vc.prog.cs.FifoChans) > 0 {
		vc.fifoFn()
	}
	for _, p := range fn.Params {
		n := vc.declare("p_"+mangle(p.Name()), vc.sortOf(p.Type()))
		vc.setVal(p, n)
		vc.addFact("assume", vc.typeInv(p.Type(), n, st))
		vc.entryEnv[p.Name()] = TV{T: p.Type(), S: n}
	}
	for _, fv := range fn.FreeVars {
		vc.val(fv)
		vc.entryEnv[fv.Name()] = vc.vals[fv]
	}
	// receivers are never nil when a method body runs on them? Not guaranteed in Go: no assumption.
	if vc.fc != nil {
		env := vc.newEnv(st, st)
		for _, l := range vc.fc.Lets {
			tv := vc.tr(l.E, env)
			if _, isInt := basicInt(tv.T); isInt && !tv.Untyped && strings.HasPrefix(l.Name, "c") && len(l.Name) > 1 && l.Name[1] >= 'A' && l.Name[1] <= 'Z' {
				// cName: the entry value as a named constant (usable inside quantifier patterns,
				// where an expanded spec macro would put arithmetic)
				tv.S = vc.define("let_"+mangle(l.Name), vc.sortOf(tv.T), tv.S)
			}
			vc.entryEnv[l.Name] = tv
			env.vars[l.Name] = tv
		}
		for _, r := range vc.fc.Requires {
			vc.addFact("assume", vc.trBool(r.E, env))
		}
		// vacuity cover: requires must be satisfiable
		if len(vc.fc.Requires) > 0 {
			o := vc.obligeG("cover", "requires-satisfiable", "true", "false", fn.Pos())
			o.Expect = "sat"
		}
		vc.tokEntry(st)
		if vc.fc.Flags["bounded-recursion"] && vc.fc.Measure == nil {
			// the function takes part in a recursion (stated by the flag) and nothing bounds its depth
			vc.oblige("recursion", "depth-bounded-by-a-measure", "false", fn.Pos())
		}
		{
			// nothing has been waited for when the function starts
			vc.heapKeySort("#waited", types.Typ[types.Bool])
			h := vc.heapGet(st, "#waited", types.Typ[types.Bool])
			vc.addFact("assume", fmt.Sprintf("(forall ((l!w Loc)) (! (not (select %s l!w)) :pattern ((select %s l!w))))", h, h))
			// nothing has been polled either (only stated where the function polls: one quantified fact less elsewhere)
			polls := false
			for _, bb := range fn.Blocks {
				for _, ins := range bb.Instrs {
					if sel, ok := ins.(*ssa.Select); ok && !sel.Blocking {
						polls = true
					}
				}
			}
			if polls {
				vc.heapKeySort("#polled", types.Typ[types.Bool])
				hp := vc.heapGet(st, "#polled", types.Typ[types.Bool])
				vc.addFact("assume", fmt.Sprintf("(forall ((l!w Loc)) (! (not (select %s l!w)) :pattern ((select %s l!w))))", hp, hp))
			}
		}
		if vc.fc.Flags["no-blocking-under-lock"] {
			// locks held by callers are not tracked: none is held by this function when it starts
			vc.heapKeySort("#held", types.Typ[types.Bool])
			h := vc.heapGet(st, "#held", types.Typ[types.Bool])
			vc.assumeNote("mutexes held by callers are not tracked (only those the function itself takes)")
			vc.addFact("assume", fmt.Sprintf("(forall ((l!h Loc)) (! (not (select %s l!h)) :pattern ((select %s l!h))))", h, h))
		}
		vc.applyHints(-1, "", env)
		// ghost instrumentation executed at entry: the ghost variables named in the
		// function's modifies clause take the values given by its ghostdef clauses
		if len(vc.fc.GhostDefs) > 0 {
			pre := st.clone()
			for _, m := range vc.fc.Modifies {
				mentioned := false
				for _, c := range vc.fc.GhostDefs {
					if containsWord(c.Src, m) {
						mentioned = true
					}
				}
				if !mentioned {
					continue
				}
				if g, ok := prog0Ghost(vc, m); ok {
					vc.heapKeySort("#ghost."+m, vc.parseType(g.Type, vc.pkg))
					vc.havocKey(st, "#ghost."+m)
				}
			}
			genv := vc.newEnv(st, pre)
			for _, c := range vc.fc.GhostDefs {
				vc.addFact("assume", vc.trBool(c.E, genv))
			}
		}
	}
	// global invariants of the package
	for _, gi := range vc.prog.cs.GlobalInvs {
		if gi.Pkg != vc.pkg.Path() || isInitName(fn.Name()) {
			continue
		}
		root := fn
		for root.Parent() != nil {
			root = root.Parent()
		}
		if isInitName(root.Name()) {
			continue
		}
		// cheap pre-filter on the invariant's text: a function that references none of the package
		// variables named in it gets nothing from it, and translating it would only register heaps (and
		// their quantified well-formedness facts) the function never touches
		touches := false
		for _, bb := range fn.Blocks {
			for _, ins := range bb.Instrs {
				for _, op := range ins.Operands(nil) {
					if g, isG := (*op).(*ssa.Global); isG && g.Pkg == fn.Pkg && containsWord(gi.Src, g.Name()) {
						touches = true
					}
				}
			}
		}
		if !touches {
			continue
		}
		env := vc.newEnv(st, st)
		vc.globalsRead = map[*ssa.Global]bool{}
		t := vc.trBool(gi.E, env)
		ok := true
		for g := range vc.globalsRead {
			if !vc.prog.onlyWrittenInInit(g) {
				vc.unsupportedf("globalinv %s mentions %s which is written outside init functions", gi.Name, g.Name())
				ok = false
			}
		}
		// a function that never touches the invariant's variables gets nothing from it (and its
		// quantifiers only cost solver time)
		if ok && len(vc.globalsRead) > 0 {
			uses := false
			for _, bb := range fn.Blocks {
				for _, ins := range bb.Instrs {
					for _, op := range ins.Operands(nil) {
						if g, isG := (*op).(*ssa.Global); isG && vc.globalsRead[g] {
							uses = true
						}
					}
				}
			}
			if !uses {
				ok = false
			}
		}
		vc.globalsRead = nil
		if ok {
			vc.assumeNote("global invariant " + gi.Name + " (proved at the return of " + gi.Init + "; its variables are written only by init functions: checked by a whole-module scan) is not relied upon during package initialisation")
			vc.addFact("assume", t)
		}
	}
	// onlycalls: every call of the function goes to one of the named callees
	if vc.fc != nil && len(vc.fc.OnlyCalls) > 0 {
		hit := ""
		for _, b := range fn.Blocks {
			for _, ins := range b.Instrs {
				ci, ok := ins.(ssa.CallInstruction)
				if !ok {
					continue
				}
				if _, isB := ci.Common().Value.(*ssa.Builtin); isB {
					continue
				}
				key, cf, disp := vc.calleeKey(ci.Common())
				full := key + " " + disp
				if cf != nil {
					full += " " + cf.String()
				}
				allowed := false
				for _, a := range vc.fc.OnlyCalls {
					if strings.Contains(full, a) {
						allowed = true
					}
				}
				if !allowed {
					hit = disp
				}
			}
		}
		cond := "true"
		if hit != "" {
			cond = "false"
		}
		o := vc.obligeG("nocall", "only:"+strings.Join(vc.fc.OnlyCalls, ","), "true", cond, fn.Pos())
		if hit != "" {
			o.Result, o.Solver = "sat", "syntactic"
			o.Model = "the function also calls " + hit
		}
	}
	// nocall: the function contains no call whose callee name contains the given text
	if vc.fc != nil {
		for _, nc := range vc.fc.NoCalls {
			hit := ""
			for _, b := range fn.Blocks {
				for _, ins := range b.Instrs {
					if ci, ok := ins.(ssa.CallInstruction); ok {
						key, cf, disp := vc.calleeKey(ci.Common())
						full := key + " " + disp
						if cf != nil {
							full += " " + cf.String()
						}
						if strings.Contains(full, nc) {
							hit = disp
						}
					}
				}
			}
			cond := "true"
			if hit != "" {
				cond = "false"
			}
			o := vc.obligeG("nocall", nc, "true", cond, fn.Pos())
			if hit != "" {
				o.Result, o.Solver = "sat", "syntactic"
				o.Model = "the function calls " + hit
			}
		}
	}
	vc.registerKeys()
	vc.reach[0] = "true"
	order := vc.rpo()
	for _, b := range order {
		vc.runBlock(b, st)
	}
}

func (vc *VC) applyHints(loop int, at string, env *Env) {
	if vc.fc == nil {
		return
	}
	for _, h := range vc.fc.Hints {
		if h.Loop != loop || h.At != at {
			continue
		}
		switch h.Kind {
		case "unfold":
			vc.assume(vc.guard(), vc.unfold(h.E, env))
		case "lemma":
			vc.assume(vc.guard(), vc.useLemma(h.E, env))
		case "assume":
			vc.assumeNote(fmt.Sprintf("assume in %s: %s", vc.name, h.Src))
			vc.addFact("trusted", imp(vc.guard(), vc.trBool(h.E, env)))
		case "established":
			// single-writer invariant of an atomic cell: sound if (a) only h.Writer stores into the cell
			// (whole-module scan on every run) and (b) h.Writer proves the clause with the same label
			if why := vc.prog.checkSingleWriter(vc.pkg.Path(), h.Writer, h.Field, h.Label); why != "" {
				vc.unsupportedf("CONTRACT-UNRESOLVED established %s: %s", h.Label, why)
				continue
			}
			vc.assumeNote(fmt.Sprintf("single-writer invariant %s of %s (only %s stores into it: scanned on every run; each proves the clause; what the cell points to is assumed not to be changed in place once published)", h.Label, h.Field, h.Writer))
			vc.addFact("assume", imp(vc.guard(), vc.trBool(h.E, env)))
		}
	}
}

func (vc *VC) isBackEdge(from, to *ssa.BasicBlock) bool { return to.Dominates(from) }

func (vc *VC) edgeCond(from, to *ssa.BasicBlock) string {
	if c, ok := vc.edge[[2]int{from.Index, to.Index}]; ok {
		return c
	}
	return "false"
}

func (vc *VC) runBlock(b *ssa.BasicBlock, entry *State) {
	var st *State
	li := vc.loopOf[b.Index]
	// predecessors (forward)
	var preds []*ssa.BasicBlock
	for _, p := range b.Preds {
		if !vc.isBackEdge(p, b) {
			if _, done := vc.exit[p.Index]; done {
				preds = append(preds, p)
			}
		}
	}
	if b.Index == 0 {
		st = entry
	} else {
		if len(preds) == 0 {
			// unreachable block (e.g. recover block)
			vc.reach[b.Index] = "false"
			vc.exit[b.Index] = entry.clone()
			return
		}
		var conds []string
		for _, p := range preds {
			conds = append(conds, vc.edgeCond(p, b))
		}
		r := or(conds...)
		if len(preds) > 1 || strings.HasPrefix(r, "(") {
			n := vc.declare(fmt.Sprintf("reach_b%d", b.Index), "Bool")
			vc.addFact("def", sx("=", n, r))
			r = n
		}
		vc.reach[b.Index] = r
		st = vc.mergeStates(b, preds)
	}
	vc.cur = b
	vc.curIdx = 0
	vc.curState = st
	// the call most recently executed: known when the block has a single forward predecessor
	vc.prevRes = nil
	if b.Index != 0 && len(preds) == 1 && len(b.Preds) == 1 && vc.blockPrevRes != nil {
		vc.prevRes = vc.blockPrevRes[preds[0].Index]
	}
	defer func() {
		if vc.blockPrevRes == nil {
			vc.blockPrevRes = map[int]*TV{}
		}
		vc.blockPrevRes[b.Index] = vc.prevRes
	}()

	if li != nil {
		vc.enterLoop(li, b, preds, st)
		st = vc.curState
	} else {
		// ordinary phis
		for _, ins := range b.Instrs {
			phi, ok := ins.(*ssa.Phi)
			if !ok {
				break
			}
			term := ""
			for i := len(b.Preds) - 1; i >= 0; i-- {
				p := b.Preds[i]
				if _, done := vc.exit[p.Index]; !done || vc.isBackEdge(p, b) {
					continue
				}
				v := vc.val(phi.Edges[i]).S
				if term == "" {
					term = v
				} else {
					term = ite(vc.edgeCond(p, b), v, term)
				}
			}
			if term == "" {
				vc.havocVal(phi, st)
			} else {
				vc.defVal(phi, term)
			}
		}
	}

	for i, ins := range b.Instrs {
		if _, ok := ins.(*ssa.Phi); ok {
			continue
		}
		vc.curIdx = i
		vc.instr(ins, st)
		st = vc.curState
	}
	vc.curIdx = len(b.Instrs)
	vc.exit[b.Index] = st
	// back edges out of b
	for _, s := range b.Succs {
		if vc.isBackEdge(b, s) {
			if l2 := vc.loopOf[s.Index]; l2 != nil {
				vc.checkInvariant(l2, b, st, "back")
			}
		}
	}
}

func (vc *VC) mergeStates(b *ssa.BasicBlock, preds []*ssa.BasicBlock) *State {
	if len(preds) == 1 {
		return vc.exit[preds[0].Index].clone()
	}
	first := vc.exit[preds[0].Index]
	sameEpoch := true
	for _, p := range preds[1:] {
		if vc.exit[p.Index].epoch != first.epoch {
			sameEpoch = false
		}
	}
	st := &State{heap: map[string]string{}}
	if sameEpoch {
		st.epoch = first.epoch
	} else {
		vc.fresh++
		st.epoch = vc.fresh
	}
	keys := map[string]bool{}
	for _, p := range preds {
		for k := range vc.exit[p.Index].heap {
			keys[k] = true
		}
	}
	if !sameEpoch {
		// predecessors live in different havoc epochs: every known key must be merged explicitly
		for k := range vc.heapSort {
			keys[k] = true
		}
	}
	pick := func(get func(*State) string, sort string, prefix string) string {
		term := ""
		same := true
		var firstV string
		for i := len(preds) - 1; i >= 0; i-- {
			p := preds[i]
			v := get(vc.exit[p.Index])
			if i == len(preds)-1 {
				firstV = v
			} else if v != firstV {
				same = false
			}
			if term == "" {
				term = v
			} else {
				term = ite(vc.edgeCond(p, b), v, term)
			}
		}
		if same {
			return firstV
		}
		return vc.define(prefix, sort, term)
	}
	for _, k := range sortedKeys(keys) {
		elem := vc.heapElem[k]
		if !sameEpoch {
			// keys absent in some pred refer to different epoch versions: still well-defined via heapGet
		}
		kk := k
		st.heap[k] = pick(func(s *State) string { return vc.heapGet(s, kk, elem) }, vc.heapSort[k], "H_"+mangle(k))
	}
	st.nextId = pick(func(s *State) string { return s.nextId }, "Int", "nextId")
	return st
}

// ---------------------------------------------------------------------------
// loops

func (vc *VC) loopMods(li *loopInfo) {
	for bi := range li.body {
		for _, ins := range vc.fn.Blocks[bi].Instrs {
			switch x := ins.(type) {
			case *ssa.Store:
				t := x.Addr.Type().Underlying().(*types.Pointer).Elem()
				vc.modKeysOfStore(x.Addr, t, li.mods)
			case *ssa.MapUpdate:
				li.mods["#map"] = true
				vc.noteMapTarget(li, x.Map)
			case *ssa.Next:
				if r, ok := x.Iter.(*ssa.Range); ok {
					if k, mt := vc.iterKey(r); mt != nil {
						li.mods[k] = true
						ck := strings.Replace(k, "#iter", "#itern", 1)
						vc.heapKeySort(ck, types.Typ[types.Int])
						li.mods[ck] = true
					}
				}
			case *ssa.Send:
				li.modAll = true
				if vc.isFifoChan(x.Chan) {
					vc.fifoFn()
					li.mods["#fifo.sendn"] = true
				}
			case *ssa.Select:
				// a select with a default case never waits: it is no scheduling point of the sequential model
				if x.Blocking {
					li.modAll = true
				}
				for _, s := range x.States {
					if vc.isFifoChan(s.Chan) {
						vc.fifoFn()
						li.mods["#fifo.sendn"] = true
						li.mods["#fifo.recvn"] = true
					}
				}
			case *ssa.Go, *ssa.Defer, *ssa.RunDefers:
				li.modAll = true
			case *ssa.UnOp:
				if x.Op == token.ARROW {
					li.modAll = true
					if vc.isFifoChan(x.X) {
						vc.fifoFn()
						li.mods["#fifo.recvn"] = true
					}
				}
			case ssa.CallInstruction:
				vc.callMods(x.Common(), li)
			}
		}
	}
}

func (vc *VC) modKeysOfStore(addr ssa.Value, t types.Type, mods map[string]bool) {
	switch u := t.Underlying().(type) {
	case *types.Struct:
		for i := 0; i < u.NumFields(); i++ {
			ft := u.Field(i).Type()
			if isStruct(ft) {
				vc.modKeysOfStore(nil, ft, mods)
			} else if !isArray(ft) {
				mods[fieldKey(t, i)] = true
				vc.heapKeySort(fieldKey(t, i), ft)
			}
		}
	case *types.Array:
	default:
		var key string
		switch a := addr.(type) {
		case *ssa.FieldAddr:
			pt := a.X.Type().Underlying().(*types.Pointer).Elem()
			key = fieldKey(pt, a.Field)
		case *ssa.IndexAddr:
			key = elemKey(t)
		default:
			key = cellKey(t)
		}
		mods[key] = true
		vc.heapKeySort(key, t)
	}
}

func (vc *VC) enterLoop(li *loopInfo, b *ssa.BasicBlock, preds []*ssa.BasicBlock, st *State) {
	vc.loopMods(li)
	// 1. invariant on entry edges
	for _, p := range preds {
		vc.checkInvariant(li, p, vc.exit[p.Index], "entry")
	}
	// 2. havoc
	preMaps := map[string]string{}
	preNext := st.nextId
	for hk := range vc.heapSort {
		if strings.HasPrefix(hk, "#map.") {
			preMaps[hk] = vc.heapGet(st, hk, vc.heapElem[hk])
		}
	}
	if li.modAll {
		vc.havocAll(st)
		// owned ghosts and channel sequence counters survive a general havoc: those the loop itself
		// changes are havocked by name
		for _, k := range sortedKeys(li.mods) {
			if strings.HasPrefix(k, "#ghost.") || strings.HasPrefix(k, "#fifo.") {
				if vc.heapElem[k] != nil {
					vc.havocKey(st, k)
				}
			}
		}
	} else {
		old := st.nextId
		st.nextId = vc.freshConst("nextId", "Int")
		vc.addFact("assume", sx("<=", old, st.nextId))
		for _, k := range sortedKeys(li.mods) {
			if k == "#map" {
				for _, hk := range sortedKeys(vc.heapSort) {
					if strings.HasPrefix(hk, "#map") {
						vc.havocKey(st, hk)
					}
				}
				continue
			}
			vc.havocKey(st, k)
		}
	}
	// maps are only updated through values defined before the loop: every other map that existed
	// when the loop was entered is what it was then
	if !li.modAll && li.mods["#map"] && !li.mapOther {
		for _, hk := range sortedKeys(preMaps) {
			nw := vc.heapGet(st, hk, vc.heapElem[hk])
			if nw == preMaps[hk] {
				continue
			}
			conds := []string{sx("<", sx("rt", "l!f"), preNext)}
			for _, m := range li.mapTargets {
				conds = append(conds, not(eq("l!f", vc.val(m).S)))
			}
			vc.addFact("assume", fmt.Sprintf("(forall ((l!f Loc)) (! (=> %s (= (select %s l!f) (select %s l!f))) :pattern ((select %s l!f))))",
				and(conds...), nw, preMaps[hk], nw))
		}
	}
	// a fresh reach for "some iteration"
	r := vc.declare(fmt.Sprintf("reach_b%d_iter", b.Index), "Bool")
	vc.reach[b.Index] = r
	// an iteration only happens after the loop was entered: the entry path condition
	// (over values that dominate the header) holds in every iteration
	var ecs []string
	for _, p := range preds {
		ecs = append(ecs, vc.edgeCond(p, b))
	}
	vc.addFact("def", imp(r, or(ecs...)))
	for _, ins := range b.Instrs {
		phi, ok := ins.(*ssa.Phi)
		if !ok {
			break
		}
		vc.havocVal(phi, st)
	}
	li.hdrSt = st.clone()
	vc.curState = st
	// 2a. automatic frame invariant: memory that existed at function entry and is outside the
	// function's modifies clause still holds its entry value (checked on every edge into the header)
	if keys, byKey, ok := vc.loopFrame(li); ok {
		for _, k := range keys {
			vc.assume(r, vc.frameCond(k, vc.heapGet(st, k, vc.heapElem[k]), byKey[k], true))
		}
	}
	// 2a'. tokens: what is owed at the loop head is the same in every iteration (requests received inside
	// an iteration are settled before the next one)
	if vc.tokensOn() {
		li.tokAtHead = vc.tokGet(st)
	}
	// 2b. automatic counter bounds: a header phi that only moves in one direction
	vc.findAutoInv(li)
	for _, ai := range li.auto {
		vc.assume(r, vc.autoInvTerm(ai, vc.val(ai.phi).S))
	}
	// 3. assume invariant
	env := vc.loopEnv(li, nil, st)
	if li.lc != nil {
		for _, c := range li.lc.Invariants {
			vc.assume(r, vc.trBool(c.E, env))
		}
		if li.lc.Decreases != nil {
			d := vc.tr(li.lc.Decreases.E, env)
			li.decOld = vc.define("dec", vc.sortOf(d.T), vc.coerceInt(d, nil).S)
		}
	}
	vc.applyHints(li.ord, "", env)
	// vacuity cover: loop head reachable under invariant
	o := vc.obligeG("cover", fmt.Sprintf("loop%d-invariant-satisfiable", li.ord), r, "false", vc.loopPos(li))
	o.Expect = "sat"
}

// loopEnv: environment for the loop's invariants. If from != nil the phis are
// bound to their incoming values along the edge from->header.
func (vc *VC) loopEnv(li *loopInfo, from *ssa.BasicBlock, st *State) *Env {
	env := vc.newEnv(st, vc.entrySt)
	predIdx := -1
	if from != nil {
		for i, p := range li.header.Preds {
			if p == from {
				predIdx = i
			}
		}
	}
	n := 0
	for _, ins := range li.header.Instrs {
		phi, ok := ins.(*ssa.Phi)
		if !ok {
			break
		}
		var tv TV
		if predIdx >= 0 {
			tv = vc.val(phi.Edges[predIdx])
			tv.T = phi.Type()
		} else {
			tv = vc.val(phi)
		}
		name := phi.Comment
		if li.lc != nil && n < len(li.lc.Vars) {
			name = li.lc.Vars[n]
		}
		if name != "" {
			env.vars[name] = tv
		}
		env.loopVals[phi] = tv
		n++
	}
	env.loop = li
	return env
}

func (vc *VC) checkInvariant(li *loopInfo, from *ssa.BasicBlock, st *State, which string) {
	g := vc.edgeCond(from, li.header)
	save, saveIdx := vc.cur, vc.curIdx
	saveSt := vc.curState
	vc.cur, vc.curIdx = from, len(from.Instrs)
	defer func() { vc.cur, vc.curIdx = save, saveIdx; vc.curState = saveSt }()
	env := vc.loopEnv(li, from, st)
	if vc.tokensOn() && which == "back" && li.tokAtHead != "" {
		cond := fmt.Sprintf("(forall ((x!t Loc)) (= (select %s x!t) (select %s x!t)))", vc.tokGet(st), li.tokAtHead)
		vc.obligeG("token", fmt.Sprintf("loop%d-every-received-request-settled-within-the-iteration", li.ord), g, cond, vc.loopPos(li))
	}
	if keys, byKey, ok := vc.loopFrame(li); ok {
		for _, k := range keys {
			h := vc.heapGet(st, k, vc.heapElem[k])
			if h == vc.heapGet(vc.entrySt, k, vc.heapElem[k]) {
				continue
			}
			vc.obligeG("loop-"+which, fmt.Sprintf("loop%d:auto-frame:%s", li.ord, k), g, vc.frameCond(k, h, byKey[k], false), vc.loopPos(li))
		}
	}
	if which == "entry" {
		saveR := vc.reach[from.Index]
		vc.reach[from.Index] = g
		vc.applyHints(li.ord, "", env)
		vc.reach[from.Index] = saveR
	}
	if which == "back" {
		for _, ai := range li.auto {
			for i, p := range li.header.Preds {
				if p == from {
					nm := "auto-bound-"
					if ai.upper != "" {
						nm = "auto-upper-"
					}
					vc.obligeG("loop-back", fmt.Sprintf("loop%d:%s%s", li.ord, nm, ai.phi.Comment), g, vc.autoInvTerm(ai, vc.val(ai.phi.Edges[i]).S), vc.loopPos(li))
				}
			}
		}
	}
	if li.lc == nil {
		return
	}
	for i, c := range li.lc.Invariants {
		label := c.Label
		if label == "" {
			label = fmt.Sprintf("inv%d", i)
		}
		goal := ""
		if which == "back" && li.hdrSt != nil {
			// universally quantified parts of an invariant on the back edge: the goal is skolemised and the
			// induction hypothesis (the same clause, assumed at the loop head) is instantiated at the
			// skolem constants, so that preservation does not depend on the solver finding that instance
			var hyps []string
			vc.goalSks = map[string]TV{}
			goal, hyps = vc.trGoalHyp(c.E, env, vc.loopEnv(li, nil, li.hdrSt), 0)
			for _, h := range hyps {
				vc.addFact("assume", imp(vc.reach[li.header.Index], h))
			}
			vc.applyInstances(label, vc.goalSks)
			vc.goalSks = nil
		} else {
			vc.goalSks = map[string]TV{}
			goal = vc.trGoal(c.E, env)
			vc.applyInstances(label, vc.goalSks)
			vc.goalSks = nil
		}
		vc.obligeG("loop-"+which, fmt.Sprintf("loop%d:%s", li.ord, label), g, goal, vc.loopPos(li))
	}
	if which == "back" && li.lc.Decreases != nil {
		d := vc.coerceInt(vc.tr(li.lc.Decreases.E, env), nil)
		ii, _ := basicInt(d.T)
		cond := and(vc.ar.le(ii, vc.ar.numi(ii, 0), li.decOld), vc.ar.lt(ii, d.S, li.decOld))
		vc.obligeG("loop-decreases", fmt.Sprintf("loop%d", li.ord), g, cond, vc.loopPos(li))
	}
}

// ---------------------------------------------------------------------------
// instructions

func (vc *VC) instr(ins ssa.Instruction, st *State) {
	switch x := ins.(type) {
	case *ssa.DebugRef:
	case *ssa.BinOp:
		vc.binop(x)
	case *ssa.UnOp:
		vc.unop(x, st)
	case *ssa.Convert:
		vc.convert(x, st)
	case *ssa.ChangeType:
		vc.setVal(x, vc.val(x.X).S)
	case *ssa.ChangeInterface:
		vc.setVal(x, vc.val(x.X).S)
	case *ssa.MakeInterface:
		vc.makeInterface(x, st)
	case *ssa.Alloc:
		loc := vc.alloc(st)
		tv := vc.defVal(x, loc)
		et := x.Type().Underlying().(*types.Pointer).Elem()
		vc.zeroInit(st, tv.S, et, true)
	case *ssa.FieldAddr:
		base := vc.val(x.X).S
		vc.nilObl(x.X, not(eq(base, "lnil")), x.Pos())
		vc.setVal(x, sx("lfld", base, fmt.Sprint(x.Field)))
	case *ssa.Field:
		vc.setVal(x, vc.structField(x.X.Type(), vc.val(x.X).S, x.Field))
	case *ssa.IndexAddr:
		vc.indexAddr(x)
	case *ssa.Index:
		vc.index(x)
	case *ssa.Slice:
		vc.slice(x, st)
	case *ssa.Store:
		t := x.Addr.Type().Underlying().(*types.Pointer).Elem()
		vc.nilCheckAddr(x.Addr, x.Pos())
		vc.store(st, x.Addr, t, vc.val(x.Val).S)
	case *ssa.MakeSlice:
		vc.makeSlice(x, st)
	case *ssa.Extract:
		tup := vc.val(x.Tuple)
		if x.Index < len(tup.Tup) {
			vc.vals[x] = TV{T: x.Type(), S: tup.Tup[x.Index].S}
		} else {
			vc.havocVal(x, st)
		}
	case *ssa.Call:
		vc.call(x, st)
	case *ssa.Phi:
	case *ssa.If:
		c := vc.val(x.Cond).S
		b := vc.cur
		r := vc.reach[b.Index]
		vc.edge[[2]int{b.Index, b.Succs[0].Index}] = and(r, c)
		vc.edge[[2]int{b.Index, b.Succs[1].Index}] = and(r, not(c))
	case *ssa.Jump:
		b := vc.cur
		vc.edge[[2]int{b.Index, b.Succs[0].Index}] = vc.reach[b.Index]
	case *ssa.Return:
		vc.ret(x, st)
	case *ssa.Panic:
		if vc.fc == nil || !vc.fc.Flags["may-panic"] {
			vc.oblige("explicit-panic", "", "false", x.Pos())
		}
	case *ssa.MakeMap:
		vc.makeMap(x, st)
	case *ssa.MapUpdate:
		vc.mapUpdate(x, st)
	case *ssa.Lookup:
		vc.lookup(x, st)
	case *ssa.Range:
		vc.rangeInit(x, st)
	case *ssa.Next:
		vc.rangeNext(x, st)
	case *ssa.TypeAssert:
		vc.typeAssert(x, st)
	case *ssa.MakeClosure:
		vc.makeClosure(x, st)
	case *ssa.MakeChan:
		vc.makeChan(x, st)
	case *ssa.Send:
		vc.send(x, st)
	case *ssa.Select:
		vc.selectInstr(x, st)
	case *ssa.Go:
		vc.goInstr(x, st)
	case *ssa.Defer:
		vc.deferred = append(vc.deferred, x)
		vc.deferInstr(x, st)
	case *ssa.RunDefers:
		vc.runDefers(x, st)
	case *ssa.SliceToArrayPointer, *ssa.MultiConvert:
		vc.unsupportedf("instruction %T", ins)
		if v, ok := ins.(ssa.Value); ok {
			vc.havocVal(v, st)
		}
	default:
		vc.unsupportedf("instruction %T", ins)
		if v, ok := ins.(ssa.Value); ok {
			vc.havocVal(v, st)
		}
	}
}

func (vc *VC) nilCheckAddr(addr ssa.Value, pos token.Pos) {
	switch addr.(type) {
	case *ssa.FieldAddr, *ssa.IndexAddr, *ssa.Alloc, *ssa.Global:
		return // already checked at address formation / never nil
	}
	vc.nilObl(addr, not(eq(vc.val(addr).S, "lnil")), pos)
}

// nilObl: a nil-dereference obligation, or — for "wiring" pointers (parameters,
// receivers, captured variables, pointer fields, channel payloads, results of
// constructors) under the trust-wiring rule — an assumption.
func (vc *VC) nilObl(p ssa.Value, cond string, pos token.Pos) {
	if vc.trustWiring() && vc.wiringNonNil(p, 0) {
		vc.assumeNote("wiring pointers (parameters, receivers, captured variables, pointer-typed struct fields, channel payloads) are assumed non-nil; nil checks are proved only for pointers that come from map lookups, type switches, calls and nil-able merges")
		vc.assume(vc.guard(), cond)
		return
	}
	vc.oblige("nil-deref", "", cond, pos)
}

func (vc *VC) trustWiring() bool {
	return vc.fc == nil || !vc.fc.Flags["strict-nil"]
}

func (vc *VC) wiringNonNil(p ssa.Value, depth int) bool {
	if depth > 6 {
		return false
	}
	switch x := p.(type) {
	case *ssa.Parameter, *ssa.FreeVar, *ssa.Global, *ssa.Alloc, *ssa.FieldAddr, *ssa.IndexAddr, *ssa.MakeClosure, *ssa.MakeMap, *ssa.MakeChan, *ssa.Function:
		return true
	case *ssa.UnOp:
		if x.Op == token.MUL {
			switch x.X.(type) {
			case *ssa.FieldAddr, *ssa.FreeVar, *ssa.Global:
				return true
			case *ssa.Alloc:
				// a local variable cell (captured by a closure): non-nil if every value stored into it is
				al := x.X.(*ssa.Alloc)
				n := 0
				for _, r := range *al.Referrers() {
					if st, ok := r.(*ssa.Store); ok && st.Addr == ssa.Value(al) {
						n++
						if !vc.wiringNonNil(st.Val, depth+1) {
							return false
						}
					}
				}
				return n > 0
			}
			return false
		}
		return x.Op == token.ARROW
	case *ssa.Extract:
		switch t := x.Tuple.(type) {
		case *ssa.Select:
			return true
		case *ssa.UnOp:
			return t.Op == token.ARROW
		case *ssa.TypeAssert:
			return x.Index == 0
		case *ssa.Call:
			if fn := t.Common().StaticCallee(); fn != nil {
				return vc.prog.returnsNonNil(fn, x.Index, 0)
			}
		}
		return false
	case *ssa.TypeAssert:
		return !x.CommaOk
	case *ssa.Phi:
		for _, e := range x.Edges {
			if e == p {
				continue
			}
			if !vc.wiringNonNil(e, depth+1) {
				return false
			}
		}
		return true
	case *ssa.Call:
		if fn := x.Common().StaticCallee(); fn != nil {
			if vc.isLeafGetter(fn) {
				for _, ins := range fn.Blocks[0].Instrs {
					if r, ok := ins.(*ssa.Return); ok && len(r.Results) == 1 {
						return vc.wiringNonNil(r.Results[0], depth+1)
					}
				}
			}
			return vc.prog.returnsNonNil(fn, 0, 0)
		}
		return false
	case *ssa.ChangeType:
		return vc.wiringNonNil(x.X, depth+1)
	case *ssa.Field:
		return true
	}
	return false
}

func (vc *VC) intInfoOf(t types.Type) intInfo {
	ii, ok := basicInt(t)
	if !ok {
		return ixInfo
	}
	return ii
}

func (vc *VC) binop(x *ssa.BinOp) {
	a, b := vc.val(x.X), vc.val(x.Y)
	t := x.X.Type()
	ar := vc.ar
	ii, isInt := basicInt(t)
	switch x.Op {
	case token.EQL, token.NEQ:
		var e string
		switch t.Underlying().(type) {
		case *types.Slice:
			// only comparison with nil is legal
			if c, ok := x.Y.(*ssa.Const); ok && c.Value == nil {
				e = eq(sx("sbase", a.S), "lnil")
			} else {
				e = eq(sx("sbase", b.S), "lnil")
			}
		default:
			e = eq(a.S, b.S)
		}
		if x.Op == token.NEQ {
			e = not(e)
		}
		vc.defVal(x, e)
		return
	case token.LSS, token.LEQ, token.GTR, token.GEQ:
		if !isInt {
			if bt, ok := t.Underlying().(*types.Basic); ok && bt.Info()&types.IsFloat != 0 {
				op := map[token.Token]string{token.LSS: "<", token.LEQ: "<=", token.GTR: ">", token.GEQ: ">="}[x.Op]
				vc.defVal(x, sx(op, a.S, b.S))
				return
			}
			vc.unsupportedf("ordered comparison on %s", t)
			vc.havocVal(x, vc.curState)
			return
		}
		var e string
		switch x.Op {
		case token.LSS:
			e = ar.lt(ii, a.S, b.S)
		case token.LEQ:
			e = ar.le(ii, a.S, b.S)
		case token.GTR:
			e = ar.lt(ii, b.S, a.S)
		case token.GEQ:
			e = ar.le(ii, b.S, a.S)
		}
		vc.defVal(x, e)
		return
	}
	if bt, ok := t.Underlying().(*types.Basic); ok && bt.Info()&types.IsString != 0 && x.Op == token.ADD {
		r := vc.freshConst("concat", "Str")
		vc.addFact("def", eq(sx("slen_", r), ar.ixadd(sx("slen_", a.S), sx("slen_", b.S))))
		vc.concatFacts(r, a.S, b.S)
		vc.setVal(x, r)
		return
	}
	if !isInt {
		if bt, ok := t.Underlying().(*types.Basic); ok && bt.Info()&types.IsFloat != 0 {
			op := map[token.Token]string{token.ADD: "+", token.SUB: "-", token.MUL: "*", token.QUO: "/"}[x.Op]
			if op != "" {
				vc.defVal(x, sx(op, a.S, b.S))
				return
			}
		}
		if bt, ok := t.Underlying().(*types.Basic); ok && bt.Info()&types.IsBoolean != 0 {
			switch x.Op {
			case token.AND, token.LAND:
				vc.defVal(x, and(a.S, b.S))
				return
			case token.OR, token.LOR:
				vc.defVal(x, or(a.S, b.S))
				return
			}
		}
		vc.unsupportedf("binop %s on %s", x.Op, t)
		vc.havocVal(x, vc.curState)
		return
	}
	res, ok := vc.intBinop(x.Op, ii, a.S, b.S, x.Y, x.Pos())
	if !ok {
		vc.unsupportedf("binop %s on %s in %s mode (%s)", x.Op, t, vc.modeName(), vc.srcLine(vc.prog.fset.Position(x.Pos())))
		vc.havocVal(x, vc.curState)
		return
	}
	vc.defVal(x, res)
}

func (vc *VC) modeName() string {
	if vc.ar.BV {
		return "bv"
	}
	return "int"
}

func (vc *VC) concatFacts(r, a, b string) {
	k := "k!c"
	ar := vc.ar
	la := sx("slen_", a)
	vc.addFact("def", fmt.Sprintf("(forall ((%s IX)) (! (= (sat_ %s %s) (ite %s (sat_ %s %s) (sat_ %s %s))) :pattern ((sat_ %s %s))))",
		k, r, k, ar.lt(ixInfo, k, la), a, k, b, ar.ixsub(k, la), r, k))
}

// intBinop: integer arithmetic; yv is the ssa value of the right operand (for constant shifts/masks).
func (vc *VC) intBinop(op token.Token, ii intInfo, a, b string, yv ssa.Value, pos token.Pos) (string, bool) {
	ar := vc.ar
	constY := func() (int64, bool) {
		if c, ok := yv.(*ssa.Const); ok && c.Value != nil {
			if v, ok := constInt64(c); ok {
				return v, true
			}
		}
		return 0, false
	}
	switch op {
	case token.ADD:
		r := ar.add(ii, a, b)
		vc.overflowCheck(ii, "+", a, b, pos)
		return r, true
	case token.SUB:
		vc.overflowCheck(ii, "-", a, b, pos)
		return ar.sub(ii, a, b), true
	case token.MUL:
		vc.overflowCheck(ii, "*", a, b, pos)
		return ar.mul(ii, a, b), true
	case token.QUO:
		vc.oblige("div-by-zero", "", not(eq(b, ar.numi(ii, 0))), pos)
		return ar.quo(ii, a, b), true
	case token.REM:
		vc.oblige("div-by-zero", "", not(eq(b, ar.numi(ii, 0))), pos)
		return ar.rem(ii, a, b), true
	}
	if ar.BV {
		yi := vc.intInfoOf(yv.Type())
		shamt := func() string {
			// shift count converted to the width of x, saturating
			if yi.bits == ii.bits {
				return b
			}
			if yi.bits < ii.bits {
				return sx(fmt.Sprintf("(_ zero_extend %d)", ii.bits-yi.bits), b)
			}
			w := ar.numi(yi, int64(ii.bits))
			return ite(sx("bvuge", b, w), ar.numi(ii, int64(ii.bits)), sx(fmt.Sprintf("(_ extract %d 0)", ii.bits-1), b))
		}
		switch op {
		case token.AND:
			return sx("bvand", a, b), true
		case token.OR:
			return sx("bvor", a, b), true
		case token.XOR:
			return sx("bvxor", a, b), true
		case token.AND_NOT:
			return sx("bvand", a, sx("bvnot", b)), true
		case token.SHL:
			return sx("bvshl", a, shamt()), true
		case token.SHR:
			if ii.signed {
				return sx("bvashr", a, shamt()), true
			}
			return sx("bvlshr", a, shamt()), true
		}
		return "", false
	}
	// int mode: only constant shifts and power-of-two masks
	c, ok := constY()
	switch op {
	case token.SHL:
		if ok && c >= 0 && c < 64 {
			return ar.wrap(ii, sx("*", a, pow2(int(c)).String())), true
		}
	case token.SHR:
		if ok && c >= 0 && c < 64 {
			return sx("div", a, pow2(int(c)).String()), true
		}
	case token.AND:
		if ok && c >= 0 && (c&(c+1)) == 0 {
			return sx("mod", a, fmt.Sprint(c+1)), true
		}
	}
	return "", false
}

func constInt64(c *ssa.Const) (int64, bool) {
	if c.Value == nil {
		return 0, false
	}
	if _, ok := basicInt(c.Type()); !ok {
		return 0, false
	}
	return c.Int64(), true
}

func (vc *VC) overflowCheck(ii intInfo, op, a, b string, pos token.Pos) {
	if vc.fc == nil || !vc.fc.Flags["check-overflow"] || !ii.signed {
		return
	}
	if vc.ar.BV {
		return
	}
	vc.oblige("overflow", "", vc.ar.inRange(ii, sx(op, a, b)), pos)
}

func (vc *VC) unop(x *ssa.UnOp, st *State) {
	a := vc.val(x.X)
	switch x.Op {
	case token.NOT:
		vc.defVal(x, not(a.S))
	case token.SUB:
		ii, ok := basicInt(x.Type())
		if !ok {
			vc.defVal(x, sx("-", a.S))
			return
		}
		if vc.ar.BV {
			vc.defVal(x, sx("bvneg", a.S))
		} else {
			vc.defVal(x, vc.ar.wrap(ii, sx("-", a.S)))
		}
	case token.XOR:
		ii, _ := basicInt(x.Type())
		if vc.ar.BV {
			vc.defVal(x, sx("bvnot", a.S))
		} else if ii.signed {
			vc.defVal(x, sx("-", sx("-", a.S), "1"))
		} else {
			vc.defVal(x, sx("-", ii.max().String(), a.S))
		}
	case token.MUL: // load
		vc.nilCheckAddr(x.X, x.Pos())
		t := x.Type()
		// a captured variable that its defining function writes exactly once (and no closure writes) is a
		// constant of this closure activation
		if fv, ok := x.X.(*ssa.FreeVar); ok && !isStruct(t) && !isArray(t) {
			if c, ok := vc.freeVarConst(fv, t); ok {
				vc.setVal(x, c)
				return
			}
		}
		// a local variable cell written exactly once (before being captured by closures that only read
		// it) always holds that value, whatever is called in between
		if al, ok := x.X.(*ssa.Alloc); ok && !isStruct(t) && !isArray(t) {
			if sv, ok := vc.constCellAt(al, x); ok {
				if _, done := vc.vals[sv]; done || isConstLike(sv) {
					vc.setVal(x, vc.val(sv).S)
					return
				}
			}
		}
		term := vc.load(st, x.X, t)
		tv := vc.defVal(x, term)
		vc.assume(vc.guard(), vc.typeInv(t, tv.S, st))
		// a field that is only written while its object is being constructed has, for every object that
		// existed at function entry, the value it had at entry (whatever was called in between)
		if fa, ok := x.X.(*ssa.FieldAddr); ok && !isStruct(t) && !isArray(t) {
			pt := fa.X.Type().Underlying().(*types.Pointer).Elem()
			key := fieldKey(pt, fa.Field)
			if vc.prog.fieldImmutable(key) {
				base := vc.val(fa.X).S
				entry := vc.heapRead(vc.entrySt, key, t, base)
				if entry != term {
					vc.assumeNote("fields written only during construction keep their value (whole-module scan of stores on every run)")
					vc.assume(vc.guard(), imp(sx("<", sx("rt", base), vc.entrySt.nextId), eq(tv.S, entry)))
				}
			}
		}
		// package-level error variables (io.EOF, bufio.ErrBufferFull, ErrBad...) are initialised
		// once with errors.New and never nil
		if g, ok := x.X.(*ssa.Global); ok && types.Identical(t, types.Universe.Lookup("error").Type()) &&
			(strings.HasPrefix(g.Name(), "Err") || strings.HasPrefix(g.Name(), "err") || g.Name() == "EOF") {
			vc.assumeNote("package-level error variables (Err*, io.EOF) are non-nil and pairwise distinct objects")
			vc.assume(vc.guard(), not(eq(sx("ityp", tv.S), "0")))
			vc.assume(vc.guard(), eq(tv.S, vc.errGlobalConst(g)))
		}
		// package-level pointer variables that only the package initialiser assigns, always with the
		// result of a constructor that never returns nil (new object on every return path)
		if g, ok := x.X.(*ssa.Global); ok && vc.fn != nil && !strings.HasPrefix(vc.fn.Name(), "init") {
			if _, isPtr := t.Underlying().(*types.Pointer); isPtr && vc.prog.globalInitNonNil(g) {
				vc.assumeNote("package-level pointer variables assigned only during package initialisation, with the result of a constructor that never returns nil, are non-nil (whole-module scan of stores on every run)")
				vc.assume(vc.guard(), not(eq(tv.S, "lnil")))
			}
		}
	case token.ARROW:
		vc.recv(x, st)
	default:
		vc.unsupportedf("unop %s", x.Op)
		vc.havocVal(x, st)
	}
}

func (vc *VC) convert(x *ssa.Convert, st *State) {
	from, to := x.X.Type(), x.Type()
	a := vc.val(x.X)
	fi, fok := basicInt(from)
	ti, tok := basicInt(to)
	switch {
	case fok && tok:
		vc.defVal(x, vc.ar.conv(fi, ti, a.S))
	case isString(to) && isByteSlice(from):
		// string(b): the string of the slice's current contents (same term as the spec-level str(b))
		bt := types.Typ[types.Byte]
		vc.needStrOf()
		vc.setVal(x, sx("strof", vc.heapGet(st, elemKey(bt), bt), a.S))
	case isByteSlice(to) && isString(from):
		// []byte(s): fresh slice
		loc := vc.alloc(st)
		s := vc.define("bytes", "Slice", sx("mkslice", loc, vc.ar.ix(0), sx("slen_", a.S), sx("slen_", a.S)))
		k := "k!b"
		rd := vc.heapRead(st, elemKey(types.Typ[types.Byte]), types.Typ[types.Byte], sx("lelem", loc, k))
		vc.assume(vc.guard(), fmt.Sprintf("(forall ((%s IX)) (! (=> %s (= %s (sat_ %s %s))) :pattern (%s)))",
			k, and(vc.ar.le(ixInfo, vc.ar.ix(0), k), vc.ar.lt(ixInfo, k, sx("slen_", a.S))), rd, a.S, k, rd))
		// the string of the fresh copy's bytes is the source string (extensionality instance)
		vc.needStrOf()
		vc.assume(vc.guard(), eq(sx("strof", vc.heapGet(st, elemKey(types.Typ[types.Byte]), types.Typ[types.Byte]), s), a.S))
		vc.setVal(x, s)
	case fok && isFloat(to):
		if vc.ar.BV {
			vc.havocVal(x, st)
		} else {
			vc.defVal(x, sx("to_real", a.S))
		}
	case isFloat(from) && isFloat(to):
		vc.setVal(x, a.S)
	case isFloat(from) && tok:
		vc.havocVal(x, st)
	default:
		if types.Identical(from.Underlying(), to.Underlying()) {
			vc.setVal(x, a.S)
			return
		}
		vc.unsupportedf("conversion %s -> %s", from, to)
		vc.havocVal(x, st)
	}
}

func isString(t types.Type) bool {
	b, ok := t.Underlying().(*types.Basic)
	return ok && b.Info()&types.IsString != 0
}
func isFloat(t types.Type) bool {
	b, ok := t.Underlying().(*types.Basic)
	return ok && b.Info()&types.IsFloat != 0
}
func isByteSlice(t types.Type) bool {
	s, ok := t.Underlying().(*types.Slice)
	if !ok {
		return false
	}
	b, ok := s.Elem().Underlying().(*types.Basic)
	return ok && b.Kind() == types.Uint8
}

func (vc *VC) makeInterface(x *ssa.MakeInterface, st *State) {
	a := vc.val(x.X)
	t := x.X.Type()
	id := vc.typeID(t)
	switch t.Underlying().(type) {
	case *types.Pointer, *types.Map, *types.Chan, *types.Signature:
		vc.defVal(x, sx("mkiface", fmt.Sprint(id), a.S))
	default:
		// boxed value: fresh box whose content is remembered in the cell heap
		loc := vc.alloc(st)
		if !isStruct(t) && !isArray(t) {
			vc.heapWrite(st, "#box"+cellKey(t), t, loc, a.S)
		}
		vc.defVal(x, sx("mkiface", fmt.Sprint(id), loc))
	}
}

func (vc *VC) typeAssert(x *ssa.TypeAssert, st *State) {
	a := vc.val(x.X)
	at := x.AssertedType
	_, toIface := at.Underlying().(*types.Interface)
	var ok, val string
	if toIface {
		// implementing an interface: unknown statically unless nil
		okc := vc.freshConst("implements", "Bool")
		vc.assume(vc.guard(), imp(okc, not(eq(sx("ityp", a.S), "0"))))
		ok, val = okc, a.S
	} else {
		id := vc.typeID(at)
		ok = eq(sx("ityp", a.S), fmt.Sprint(id))
		switch at.Underlying().(type) {
		case *types.Pointer, *types.Map, *types.Chan, *types.Signature:
			val = sx("iptr", a.S)
		default:
			if !isStruct(at) && !isArray(at) {
				val = vc.heapRead(st, "#box"+cellKey(at), at, sx("iptr", a.S))
			} else {
				val = vc.freshConst("unboxed", vc.sortOf(at))
			}
		}
	}
	if x.CommaOk {
		okn := vc.define("taok", "Bool", ok)
		v := vc.define("taval", vc.sortOf(at), ite(okn, val, vc.zero(at)))
		vc.vals[x] = TV{T: x.Type(), Tup: []TV{{T: at, S: v}, {T: types.Typ[types.Bool], S: okn}}}
		vc.assume(vc.guard(), vc.typeInv(at, v, st))
		return
	}
	vc.oblige("type-assert", "", ok, x.Pos())
	tv := vc.defVal(x, val)
	vc.assume(vc.guard(), vc.typeInv(at, tv.S, st))
}

func (vc *VC) indexAddr(x *ssa.IndexAddr) {
	a, i := vc.val(x.X), vc.val(x.Index)
	idx := vc.toIX(i)
	ar := vc.ar
	switch u := x.X.Type().Underlying().(type) {
	case *types.Slice:
		vc.oblige("index", "", and(ar.le(ixInfo, ar.ix(0), idx), ar.lt(ixInfo, idx, sx("slen", a.S))), x.Pos())
		vc.setVal(x, sx("lelem", sx("sbase", a.S), ar.ixadd(sx("soff", a.S), idx)))
	case *types.Pointer:
		arr := u.Elem().Underlying().(*types.Array)
		vc.nilObl(x.X, not(eq(a.S, "lnil")), x.Pos())
		vc.oblige("index", "", and(ar.le(ixInfo, ar.ix(0), idx), ar.lt(ixInfo, idx, ar.ix(arr.Len()))), x.Pos())
		vc.setVal(x, sx("lelem", a.S, idx))
	default:
		vc.unsupportedf("IndexAddr on %s", x.X.Type())
		vc.havocVal(x, vc.curState)
	}
}

// toIX converts an integer-typed value to the index sort (int).
func (vc *VC) toIX(v TV) string {
	ii, ok := basicInt(v.T)
	if !ok {
		return v.S
	}
	return vc.ar.conv(ii, ixInfo, v.S)
}

func (vc *VC) index(x *ssa.Index) {
	a, i := vc.val(x.X), vc.val(x.Index)
	idx := vc.toIX(i)
	ar := vc.ar
	switch u := x.X.Type().Underlying().(type) {
	case *types.Basic: // string
		vc.oblige("index", "", and(ar.le(ixInfo, ar.ix(0), idx), ar.lt(ixInfo, idx, sx("slen_", a.S))), x.Pos())
		vc.defVal(x, sx("sat_", a.S, idx))
	case *types.Array:
		vc.oblige("index", "", and(ar.le(ixInfo, ar.ix(0), idx), ar.lt(ixInfo, idx, ar.ix(u.Len()))), x.Pos())
		vc.defVal(x, sx("select", a.S, idx))
	default:
		vc.unsupportedf("Index on %s", x.X.Type())
		vc.havocVal(x, vc.curState)
	}
}

func (vc *VC) slice(x *ssa.Slice, st *State) {
	a := vc.val(x.X)
	ar := vc.ar
	z := ar.ix(0)
	le := func(p, q string) string { return ar.le(ixInfo, p, q) }
	opt := func(v ssa.Value, def string) string {
		if v == nil {
			return def
		}
		return vc.toIX(vc.val(v))
	}
	switch u := x.X.Type().Underlying().(type) {
	case *types.Slice:
		lo := opt(x.Low, z)
		hi := opt(x.High, sx("slen", a.S))
		mx := opt(x.Max, sx("scap", a.S))
		cond := and(le(z, lo), le(lo, hi), le(hi, mx), le(mx, sx("scap", a.S)))
		vc.oblige("slice-bounds", "", cond, x.Pos())
		vc.defVal(x, sx("mkslice", sx("sbase", a.S), ar.ixadd(sx("soff", a.S), lo), ar.ixsub(hi, lo), ar.ixsub(mx, lo)))
	case *types.Basic: // string
		lo := opt(x.Low, z)
		hi := opt(x.High, sx("slen_", a.S))
		vc.oblige("slice-bounds", "", and(le(z, lo), le(lo, hi), le(hi, sx("slen_", a.S))), x.Pos())
		r := vc.freshConst("substr", "Str")
		vc.addFact("def", imp(vc.guard(), eq(sx("slen_", r), ar.ixsub(hi, lo))))
		k := "k!u"
		vc.addFact("def", fmt.Sprintf("(forall ((%s IX)) (! (= (sat_ %s %s) (sat_ %s %s)) :pattern ((sat_ %s %s))))", k, r, k, a.S, ar.ixadd(lo, k), r, k))
		vc.setVal(x, r)
	case *types.Pointer: // pointer to array
		arr := u.Elem().Underlying().(*types.Array)
		n := ar.ix(arr.Len())
		lo := opt(x.Low, z)
		hi := opt(x.High, n)
		mx := opt(x.Max, n)
		vc.nilObl(x.X, not(eq(a.S, "lnil")), x.Pos())
		vc.oblige("slice-bounds", "", and(le(z, lo), le(lo, hi), le(hi, mx), le(mx, n)), x.Pos())
		vc.defVal(x, sx("mkslice", a.S, lo, ar.ixsub(hi, lo), ar.ixsub(mx, lo)))
	default:
		vc.unsupportedf("Slice on %s", x.X.Type())
		vc.havocVal(x, st)
	}
}

func (vc *VC) makeSlice(x *ssa.MakeSlice, st *State) {
	ar := vc.ar
	ln, cp := vc.toIX(vc.val(x.Len)), vc.toIX(vc.val(x.Cap))
	vc.oblige("makeslice-len", "", and(ar.le(ixInfo, ar.ix(0), ln), ar.le(ixInfo, ln, cp)), x.Pos())
	if vc.fc != nil && vc.fc.Flags["bound-alloc"] {
		vc.oblige("alloc-bound", "", ar.le(ixInfo, cp, ar.ix(allocBound)), x.Pos())
	}
	loc := vc.alloc(st)
	tv := vc.defVal(x, sx("mkslice", loc, ar.ix(0), ln, cp))
	elem := x.Type().Underlying().(*types.Slice).Elem()
	vc.zeroInitElems(st, sx("sbase", tv.S), elem)
}

const allocBound = 1 << 30

func (vc *VC) ret(x *ssa.Return, st *State) {
	if vc.fc == nil {
		return
	}
	env := vc.newEnv(st, vc.entrySt)
	sig := vc.fn.Signature
	for i, r := range x.Results {
		tv := vc.val(r)
		tv.T = sig.Results().At(i).Type()
		if n := sig.Results().At(i).Name(); n != "" && n != "_" {
			env.vars[n] = tv
		}
		env.vars[fmt.Sprintf("result%d", i)] = tv
		if len(x.Results) == 1 {
			env.vars["result"] = tv
		}
	}
	vc.applyHints(-1, "ret", env)
	// index of this return statement in source order (for clauses placed at one return)
	retIdx := 1
	for _, bb := range vc.fn.Blocks {
		for _, ins := range bb.Instrs {
			if r2, ok := ins.(*ssa.Return); ok && r2 != x && r2.Pos() < x.Pos() {
				retIdx++
			}
		}
	}
	for i, c := range vc.fc.Ensures {
		if c.RetIdx != 0 && c.RetIdx != retIdx {
			continue
		}
		label := c.Label
		if label == "" {
			label = fmt.Sprintf("ensures%d", i)
		}
		goal := c.E
		genv := env
		// existential postconditions with a stated witness
		for {
			q, ok := goal.(*EQuant)
			if !ok || q.Forall || len(q.Vars) == 0 {
				break
			}
			var w *Witness
			for k := range vc.fc.Witnesses {
				if vc.fc.Witnesses[k].Label == c.Label && vc.fc.Witnesses[k].Name == q.Vars[0].Name {
					w = &vc.fc.Witnesses[k]
				}
			}
			if w == nil {
				break
			}
			genv = genv.child()
			wt := vc.tr(w.E, env)
			genv.vars[q.Vars[0].Name] = vc.coerceInt(wt, vc.parseType(q.Vars[0].Type, env.pkg))
			if len(q.Vars) > 1 {
				goal = &EQuant{Forall: false, Vars: q.Vars[1:], Body: q.Body}
			} else {
				goal = q.Body
			}
		}
		vc.goalSks = map[string]TV{}
		gterm := vc.trGoal(goal, genv)
		vc.applyInstances(label, vc.goalSks)
		vc.goalSks = nil
		vc.oblige("post", label, gterm, x.Pos())
		// postconditions are proved in order: an earlier one may be used for the later ones
		vc.assume(vc.guard(), vc.trBool(goal, genv))
	}
	for _, gi := range vc.prog.cs.GlobalInvs {
		if gi.Pkg == vc.pkg.Path() && gi.Init == vc.name {
			vc.oblige("post", "globalinv:"+gi.Name, vc.trBool(gi.E, env), x.Pos())
		}
	}
	vc.frameCheck(st, x.Pos())
	vc.tokReturn(st, env, x.Pos())
	o := vc.oblige("cover", "return-reachable", "false", x.Pos())
	o.Expect = "sat"
}

type autoInv struct {
	phi    *ssa.Phi
	entry  string
	lower  bool   // entry <= phi (counter increases) ; else phi <= entry
	upper  string // if set: phi <= upper (or phi < upper when strict), or phi == entry
	strict bool
}

func (vc *VC) autoInvTerm(ai autoInv, v string) string {
	ii, _ := basicInt(ai.phi.Type())
	if ai.upper != "" {
		if ai.strict {
			return or(vc.ar.lt(ii, v, ai.upper), eq(v, ai.entry))
		}
		return or(vc.ar.le(ii, v, ai.upper), eq(v, ai.entry))
	}
	if ai.lower {
		return vc.ar.le(ii, ai.entry, v)
	}
	return vc.ar.le(ii, v, ai.entry)
}

// findAutoInv: phis of the header whose back-edge values are phi+c (c>0) or phi-c.
func (vc *VC) findAutoInv(li *loopInfo) {
	li.auto = nil
	for _, ins := range li.header.Instrs {
		phi, ok := ins.(*ssa.Phi)
		if !ok {
			break
		}
		if _, isInt := basicInt(phi.Type()); !isInt {
			continue
		}
		var entry ssa.Value
		nEntry := 0
		dir := 0
		good := true
		for i, p := range li.header.Preds {
			e := phi.Edges[i]
			if !vc.isBackEdge(p, li.header) {
				entry = e
				nEntry++
				continue
			}
			d := stepDir(phi, e)
			if d == 0 || (dir != 0 && d != dir) {
				good = false
			}
			dir = d
		}
		if !good || nEntry != 1 || dir == 0 {
			continue
		}
		if _, known := vc.vals[entry]; !known {
			if _, isConst := entry.(*ssa.Const); !isConst {
				continue
			}
		}
		li.auto = append(li.auto, autoInv{phi: phi, entry: vc.val(entry).S, lower: dir > 0})
		// upper bound from the header's own exit test  X < N  (X = phi or phi+1, N loop-invariant)
		if dir > 0 {
			if iff, ok := li.header.Instrs[len(li.header.Instrs)-1].(*ssa.If); ok {
				if cmp, ok := iff.Cond.(*ssa.BinOp); ok && cmp.Op == token.LSS && li.body[li.header.Succs[0].Index] {
					nOK := false
					switch n := cmp.Y.(type) {
					case *ssa.Const, *ssa.Parameter:
						nOK = true
					case ssa.Instruction:
						nOK = !li.body[n.Block().Index]
					}
					unit := true
					for i, p := range li.header.Preds {
						if vc.isBackEdge(p, li.header) {
							b, ok := phi.Edges[i].(*ssa.BinOp)
							if !ok || b.Op != token.ADD {
								unit = false
								continue
							}
							c, isC := b.Y.(*ssa.Const)
							if !isC {
								unit = false
								continue
							}
							if v, ok := constInt64(c); !ok || v != 1 {
								unit = false
							}
						}
					}
					if nOK && unit {
						if cmp.X == phi {
							li.auto = append(li.auto, autoInv{phi: phi, entry: vc.val(entry).S, upper: vc.val(cmp.Y).S, strict: false})
						} else if b, ok := cmp.X.(*ssa.BinOp); ok && b.Op == token.ADD && b.X == phi && b.Block() == li.header {
							if c, isC := b.Y.(*ssa.Const); isC {
								if v, ok := constInt64(c); ok && v == 1 {
									li.auto = append(li.auto, autoInv{phi: phi, entry: vc.val(entry).S, upper: vc.val(cmp.Y).S, strict: true})
								}
							}
						}
					}
				}
			}
		}
	}
}

// stepDir: +1 if e == phi + c (c>0 const), -1 if e == phi - c, 0 otherwise.
func stepDir(phi *ssa.Phi, e ssa.Value) int {
	b, ok := e.(*ssa.BinOp)
	if !ok {
		return 0
	}
	cst := func(v ssa.Value) (int64, bool) {
		c, ok := v.(*ssa.Const)
		if !ok {
			return 0, false
		}
		return constInt64(c)
	}
	switch b.Op {
	case token.ADD:
		if b.X == phi {
			if c, ok := cst(b.Y); ok && c > 0 {
				return 1
			} else if ok && c < 0 {
				return -1
			}
		}
		if b.Y == phi {
			if c, ok := cst(b.X); ok && c > 0 {
				return 1
			}
		}
	case token.SUB:
		if b.X == phi {
			if c, ok := cst(b.Y); ok && c > 0 {
				return -1
			}
		}
	}
	return 0
}

func prog0Ghost(vc *VC, name string) (*GhostVar, bool) {
	g, ok := vc.prog.cs.Ghosts[name]
	return g, ok
}

// errGlobalConst: a fixed interface value per package-level error variable (distinct per variable).
func (vc *VC) errGlobalConst(g *ssa.Global) string {
	id := vc.prog.globalID(g)
	n := "errval_" + mangle(g.Pkg.Pkg.Path()+"."+g.Name())
	if !vc.declared[n] {
		vc.declare(n, "Iface")
		vc.facts = append(vc.facts, Fact{Seq: 0, Term: eq(n, fmt.Sprintf("(mkiface 999 (lroot (- %d)))", 100000+id)), Kind: "assume"})
	}
	return n
}

// registerKeys: heap keys syntactically used by the function (so that state merges across
// havoc epochs keep them).
func (vc *VC) registerKeys() {
	for _, b := range vc.fn.Blocks {
		for _, ins := range b.Instrs {
			switch x := ins.(type) {
			case *ssa.FieldAddr:
				pt := x.X.Type().Underlying().(*types.Pointer).Elem()
				st := pt.Underlying().(*types.Struct)
				ft := st.Field(x.Field).Type()
				if !isStruct(ft) && !isArray(ft) {
					vc.heapKeySort(fieldKey(pt, x.Field), ft)
				}
			case *ssa.IndexAddr:
				var et types.Type
				switch u := x.X.Type().Underlying().(type) {
				case *types.Slice:
					et = u.Elem()
				case *types.Pointer:
					if a, ok := u.Elem().Underlying().(*types.Array); ok {
						et = a.Elem()
					}
				}
				if et != nil && !isStruct(et) && !isArray(et) {
					vc.heapKeySort(elemKey(et), et)
				}
			}
		}
	}
}

func isConstLike(v ssa.Value) bool {
	switch v.(type) {
	case *ssa.Const, *ssa.Parameter, *ssa.Global, *ssa.Function:
		return true
	}
	return false
}

// constCell: the single value ever stored into a local cell, if the cell is stored exactly once in its
// function (in the entry block) and never by the closures that capture it, and its address does not
// otherwise escape.
func (vc *VC) constCell(al *ssa.Alloc) (ssa.Value, bool) { return vc.constCellAt(al, nil) }

// instrDominates: a is executed before b on every path reaching b.
func instrDominates(a, b ssa.Instruction) bool {
	if a.Block() == b.Block() {
		for _, ins := range a.Block().Instrs {
			if ins == a {
				return true
			}
			if ins == b {
				return false
			}
		}
	}
	return a.Block().Dominates(b.Block())
}

// constCellAt: as constCell, the single store being anywhere that dominates the instruction at.
func (vc *VC) constCellAt(al *ssa.Alloc, at ssa.Instruction) (ssa.Value, bool) {
	var stored ssa.Value
	n := 0
	for _, r := range *al.Referrers() {
		switch u := r.(type) {
		case *ssa.Store:
			if u.Addr != ssa.Value(al) {
				return nil, false
			}
			n++
			stored = u.Val
			if u.Block() != al.Parent().Blocks[0] && (at == nil || !instrDominates(u, at)) {
				return nil, false
			}
		case *ssa.UnOp, *ssa.DebugRef:
		case *ssa.MakeClosure:
			fn := u.Fn.(*ssa.Function)
			for i, b := range u.Bindings {
				if b == ssa.Value(al) && !freeVarOnlyRead(fn, i, 0) {
					return nil, false
				}
			}
		default:
			return nil, false
		}
	}
	if n != 1 {
		return nil, false
	}
	return stored, true
}

func freeVarOnlyRead(fn *ssa.Function, idx int, depth int) bool {
	if depth > 3 || idx >= len(fn.FreeVars) {
		return false
	}
	fv := fn.FreeVars[idx]
	for _, r := range *fv.Referrers() {
		switch u := r.(type) {
		case *ssa.UnOp, *ssa.DebugRef:
		case *ssa.MakeClosure:
			inner := u.Fn.(*ssa.Function)
			for i, b := range u.Bindings {
				if b == ssa.Value(fv) && !freeVarOnlyRead(inner, i, depth+1) {
					return false
				}
			}
		default:
			return false
		}
	}
	return true
}

func containsWord(s, w string) bool {
	i := 0
	for {
		j := strings.Index(s[i:], w)
		if j < 0 {
			return false
		}
		j += i
		end := j + len(w)
		isId := func(c byte) bool { return c == '_' || (c >= 'a' && c <= 'z') || (c >= 'A' && c <= 'Z') || (c >= '0' && c <= '9') }
		if (j == 0 || !isId(s[j-1])) && (end == len(s) || !isId(s[end])) {
			return true
		}
		i = j + 1
	}
}

// freeVarConst: the constant standing for the content of a captured single-assignment variable.
func (vc *VC) freeVarConst(fv *ssa.FreeVar, t types.Type) (string, bool) {
	if c, ok := vc.fvConsts[fv.Name()]; ok {
		return c, c != ""
	}
	ok := false
	fn := vc.fn
	if parent := fn.Parent(); parent != nil {
		idx := -1
		for i, f := range fn.FreeVars {
			if f == fv {
				idx = i
			}
		}
		for _, b := range parent.Blocks {
			for _, ins := range b.Instrs {
				mc, isMC := ins.(*ssa.MakeClosure)
				if !isMC || mc.Fn != ssa.Value(fn) || idx < 0 || idx >= len(mc.Bindings) {
					continue
				}
				if al, isAl := mc.Bindings[idx].(*ssa.Alloc); isAl {
					if singleStoreBefore(al, mc) {
						ok = true
					}
				}
			}
		}
	}
	if !ok {
		vc.fvConsts[fv.Name()] = ""
		return "", false
	}
	n := vc.declare("fvc_"+mangle(fv.Name()), vc.sortOf(t))
	vc.fvConsts[fv.Name()] = n
	vc.facts = append(vc.facts, Fact{Seq: 0, Term: vc.typeInv(t, n, vc.entrySt), Kind: "assume"})
	// the cell holds that value in the entry state as well
	vc.facts = append(vc.facts, Fact{Seq: 0, Term: eq(vc.heapRead(vc.entrySt, cellKey(t), t, vc.val(fv).S), n), Kind: "assume"})
	return n, true
}

// singleStoreBefore: the captured variable is assigned exactly once, before the closure mc is
// created, and no closure assigns it: its content is a constant for every activation of mc.Fn.
func singleStoreBefore(al *ssa.Alloc, mc *ssa.MakeClosure) bool {
	var st *ssa.Store
	for _, r := range *al.Referrers() {
		switch u := r.(type) {
		case *ssa.Store:
			if u.Addr != ssa.Value(al) || st != nil {
				return false
			}
			st = u
		case *ssa.UnOp, *ssa.DebugRef:
		case *ssa.MakeClosure:
			fn := u.Fn.(*ssa.Function)
			for i, b := range u.Bindings {
				if b == ssa.Value(al) && !freeVarOnlyRead(fn, i, 0) {
					return false
				}
			}
		default:
			return false
		}
	}
	if st == nil {
		return false
	}
	if st.Block() == mc.Block() {
		for _, ins := range st.Block().Instrs {
			if ins == ssa.Instruction(st) {
				return true
			}
			if ins == ssa.Instruction(mc) {
				return false
			}
		}
	}
	return st.Block().Dominates(mc.Block())
}

// noteMapTarget records a map updated inside a loop; values defined inside the loop are not tracked.
func (vc *VC) noteMapTarget(li *loopInfo, m ssa.Value) {
	if ins, ok := m.(ssa.Instruction); ok && ins.Block() != nil && li.body[ins.Block().Index] {
		li.mapOther = true
		return
	}
	for _, t := range li.mapTargets {
		if t == m {
			return
		}
	}
	li.mapTargets = append(li.mapTargets, m)
}

// isInitName: the package initialiser go/ssa synthesizes ("init") or a source init function ("init#N").
func isInitName(n string) bool { return n == "init" || strings.HasPrefix(n, "init#") }
