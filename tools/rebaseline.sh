#!/bin/sh
# rebaseline.sh [ids...]: records the obligations discharged on the unchanged tree.
cd /verif
IDS="$@"
[ -z "$IDS" ] && IDS=$(python3 -c "import json;print(' '.join(c['property_id'] for c in json.load(open('MANIFEST.json'))['checks']))")
for p in $IDS; do ./bin/govc check -prop $p -write-baseline | tail -1; done
