package main

import (
	"encoding/json"
	"flag"
	"fmt"
	"os"
	"path/filepath"
	"regexp"
	"sort"
	"strconv"
	"strings"
	"time"
)

type Finding struct {
	Prop  string
	Re    *regexp.Regexp
	Desc  string
	Fixed bool
	Raw   string
}

func loadFindings(path string) []Finding {
	data, err := os.ReadFile(path)
	if err != nil {
		return nil
	}
	var out []Finding
	for _, ln := range strings.Split(string(data), "\n") {
		ln = strings.TrimSpace(ln)
		if ln == "" || strings.HasPrefix(ln, "#") {
			continue
		}
		if strings.HasPrefix(ln, "fixed:") {
			out = append(out, Finding{Fixed: true, Raw: ln})
			continue
		}
		if !strings.HasPrefix(ln, "finding:") {
			continue
		}
		// finding: property=C16 obligation=<regex> :: description
		rest := strings.TrimSpace(ln[len("finding:"):])
		desc := ""
		if i := strings.Index(rest, "::"); i >= 0 {
			desc = strings.TrimSpace(rest[i+2:])
			rest = strings.TrimSpace(rest[:i])
		}
		f := Finding{Desc: desc, Raw: ln}
		for _, kv := range strings.SplitN(rest, " ", 2) {
			kv = strings.TrimSpace(kv)
			if strings.HasPrefix(kv, "property=") {
				f.Prop = kv[len("property="):]
			} else if strings.HasPrefix(kv, "obligation=") {
				re, err := regexp.Compile("^(?:" + kv[len("obligation="):] + ")$")
				if err == nil {
					f.Re = re
				}
			}
		}
		if f.Re != nil {
			out = append(out, f)
		}
	}
	return out
}

type Baseline struct {
	Property    string   `json:"property"`
	Obligations []string `json:"obligations"`
	Covers      []string `json:"covers"`
}

func loadBaseline(dir, prop string) *Baseline {
	data, err := os.ReadFile(filepath.Join(dir, prop+".json"))
	if err != nil {
		return nil
	}
	var b Baseline
	if json.Unmarshal(data, &b) != nil {
		return nil
	}
	return &b
}

type unit struct {
	key string
	vc  *VC
	err string
}

// collectUnits: VCs of every function / lemma carrying the property.
func collectUnits(prog *Program, prop string) []*unit {
	var us []*unit
	lemmaNeeded := map[string]bool{}
	for _, key := range prog.cs.Order {
		fc := prog.cs.Funcs[key]
		if fc.Extern {
			continue
		}
		var also []AlsoProp
		if !hasProp(fc.Props, prop) {
			for _, ap := range fc.AlsoProps {
				if hasProp(ap.Props, prop) {
					also = append(also, ap)
				}
			}
			if len(also) == 0 {
				continue
			}
		}
		vc, err := buildVCSafe(prog, key)
		if err == nil && vc != nil && also != nil {
			// clause-level membership: only the named clauses (and the safety sweep) count for this property
			var keep []*Obl
			for _, o := range vc.obls {
				label := o.Anchor
				if i := strings.LastIndex(label, ":"); i >= 0 {
					label = label[i+1:]
				}
				ok := false
				for _, ap := range also {
					if ap.Labels[label] && o.Expect == "" {
						ok = true
					}
					if ap.NoPanic && safetyKind(o.Kind) {
						ok = true
					}
					if ap.Tokens && o.Kind == "token" {
						ok = true
					}
					if ap.Calls && o.Kind == "nocall" {
						ok = true
					}
					if o.Kind == "unverified-callee" || o.Kind == "spawn" {
						ok = true
					}
				}
				if ok {
					keep = append(keep, o)
				}
			}
			vc.obls = keep
		}
		u := &unit{key: key, vc: vc}
		if err != nil {
			u.err = err.Error()
		} else {
			for l := range vc.lemmasUsed {
				lemmaNeeded[l] = true
			}
		}
		us = append(us, u)
	}
	// lemmas: those tagged with the property plus those used (transitively)
	done := map[string]bool{}
	for changed := true; changed; {
		changed = false
		for _, l := range prog.cs.Lemmas {
			if l.Trusted || done[l.Name] {
				continue
			}
			if hasProp(l.Props, prop) || lemmaNeeded[l.Name] {
				done[l.Name] = true
				changed = true
				vc := buildLemmaVC(prog, l)
				for l2 := range vc.lemmasUsed {
					lemmaNeeded[l2] = true
				}
				us = append(us, &unit{key: "lemma:" + l.Name, vc: vc})
			}
		}
	}
	return us
}

func hasProp(ps []string, p string) bool {
	for _, x := range ps {
		if x == p {
			return true
		}
	}
	return false
}

type oblReport struct {
	Name    string            `json:"name"`
	Kind    string            `json:"kind"`
	Result  string            `json:"result"`
	Solver  string            `json:"solver"`
	TimeS   float64           `json:"time_s"`
	Where   string            `json:"where,omitempty"`
	Status  string            `json:"status"`
	Solvers map[string]string `json:"solvers,omitempty"`
}

func cmdCheck(args []string) int {
	fs := flag.NewFlagSet("check", flag.ExitOnError)
	prop := fs.String("prop", "", "property id")
	tier := fs.String("tier", "quick", "quick|thorough")
	fs.StringVar(&repoDir, "repo", repoDir, "repository")
	verif := fs.String("verif", "/verif", "verif directory")
	writeBaseline := fs.Bool("write-baseline", false, "record discharged obligations as the baseline")
	noEvidence := fs.Bool("no-evidence", false, "do not write the evidence file")
	fs.Parse(args)
	if *prop == "" {
		fmt.Fprintln(os.Stderr, "need -prop")
		return 2
	}
	if t := os.Getenv("VERIF_TIER"); t == "thorough" || t == "quick" {
		if !flagPassed(fs, "tier") {
			*tier = t
		}
	}
	seed := 0
	if s := os.Getenv("VERIF_SEED"); s != "" {
		seed, _ = strconv.Atoi(s)
	}
	specDir = filepath.Join(*verif, "spec")
	start := time.Now()
	timeout := 10000
	if *tier == "thorough" {
		timeout = 60000
	}
	prog, err := LoadProgram(repoDir, specDir, []string{"./..."})
	if err != nil {
		// the tree does not load (does not compile): nothing can be decided
		fmt.Printf("ERROR: cannot load %s: %v\n", repoDir, err)
		return 3
	}
	loadS := time.Since(start).Seconds()
	units := collectUnits(prog, *prop)
	tables := runTableChecks(prog, *prop)
	dir, _ := os.MkdirTemp("/var/tmp", "govc-"+*prop+"-")
	defer os.RemoveAll(dir)
	var jobs []job
	for _, u := range units {
		if u.vc == nil {
			continue
		}
		for _, o := range u.vc.obls {
			jobs = append(jobs, job{u.vc, o})
		}
	}
	SolveAll(jobs, dir, timeout, 14)
	crossConfirmed, crossDisagree := 0, []string(nil)
	if *tier == "thorough" {
		crossConfirmed, crossDisagree = CrossCheck(jobs, 8000, 14)
	}

	findings := loadFindings(filepath.Join(*verif, "known_findings.txt"))
	base := loadBaseline(filepath.Join(*verif, "baseline"), *prop)
	inBase := map[string]bool{}
	baseCover := map[string]bool{}
	if base != nil {
		for _, n := range base.Obligations {
			inBase[n] = true
		}
		for _, n := range base.Covers {
			baseCover[n] = true
		}
	}
	// second chance: an obligation that was discharged when the baseline was recorded and now runs
	// out of solver budget (a loaded machine, an unlucky solver seed) is decided again, alone and with
	// three times the budget, before anything is concluded from it. A refuted obligation (sat) is final.
	if *tier != "thorough" {
		var again []job
		for _, j := range jobs {
			if inBase[j.o.Name] && j.o.Expect == "" && (j.o.Result == "unknown" || j.o.Result == "timeout") {
				j.o.Result = ""
				again = append(again, j)
			}
		}
		if len(again) > 0 && len(again) <= 40 {
			SolveAll(again, dir, 3*timeout, 8)
		} else {
			for _, j := range again {
				j.o.Result = "unknown"
			}
		}
	}

	replayDir := filepath.Join(*verif, "replays")
	os.MkdirAll(replayDir, 0o755)
	var reports []oblReport
	var violations []string
	var knownLines []string
	nObl, nDis, nKnown, nUndecidedNew, nCovers, nCoverSat := 0, 0, 0, 0, 0, 0
	solverTime := 0.0
	bySolver := map[string]int{}
	seen := map[string]bool{}
	var funcsUnder []string
	assumptions := map[string]bool{}
	var unsupported []string
	var samples []interface{}
	var newBase Baseline
	newBase.Property = *prop
	deadReturns := map[string]int{}
	retCount := map[string]int{}

	violate := func(name, why, suffix string, o *Obl, vc *VC) {
		rp := filepath.Join(replayDir, fmt.Sprintf("%s-%s.json", *prop, sanitizeFile(name)))
		writeReplayFile(rp, *prop, name, why, o, vc)
		line := fmt.Sprintf("VIOLATION property=%s replay=%s", *prop, rp)
		if suffix != "" {
			line += " " + suffix
		}
		violations = append(violations, line)
		fmt.Printf("  failed obligation: %s  (%s)\n", name, why)
	}

	for _, u := range units {
		if u.vc == nil {
			violate(u.key, u.err, "no-failing-input-found", nil, nil)
			continue
		}
		vc := u.vc
		funcsUnder = append(funcsUnder, fmt.Sprintf("%s (%d obligations, mode %s)", u.key, len(vc.obls), vc.modeName()))
		for a := range vc.assumptions {
			assumptions[a] = true
		}
		for _, s := range vc.unsupported {
			unsupported = append(unsupported, vc.name+": "+s)
			if strings.Contains(s, "CONTRACT-UNRESOLVED") || strings.HasPrefix(s, "contract:") {
				violate(vc.name+"/contract", s, "no-failing-input-found", nil, vc)
			}
		}
		nRet := 0
		for _, o := range vc.obls {
			if strings.Contains(o.Name, "/cover/return-reachable") {
				nRet++
			}
		}
		defer func(vc *VC, nRet int) {}(vc, nRet)
		retCount[vc.name] = nRet
		// the no-panic sweep of a function is one claim: every safety obligation of it is discharged
		sweepName := vc.name + "/no-panic-sweep-complete"
		nSafety, nSafetyOK := 0, 0
		for _, o := range vc.obls {
			if safetyKind(o.Kind) {
				nSafety++
				if o.Result == "unsat" {
					nSafetyOK++
				}
			}
		}
		if nSafety > 0 && nSafety == nSafetyOK {
			newBase.Obligations = append(newBase.Obligations, sweepName)
			seen[sweepName] = true
		}
		sweepWasComplete := inBase[sweepName]
		for _, o := range vc.obls {
			seen[o.Name] = true
			solverTime += o.TimeS
			r := oblReport{Name: o.Name, Kind: o.Kind, Result: o.Result, Solver: o.Solver, TimeS: round3(o.TimeS), Solvers: o.Results}
			if o.Pos.IsValid() {
				r.Where = fmt.Sprintf("%s:%d", strings.TrimPrefix(o.Pos.Filename, repoDir+"/"), o.Pos.Line)
			}
			if o.Expect == "sat" {
				nCovers++
				switch o.Result {
				case "sat":
					nCoverSat++
					r.Status = "cover-reached"
					newBase.Covers = append(newBase.Covers, o.Name)
				case "unsat":
					r.Status = "unreachable"
					if strings.Contains(o.Name, "/cover/return-reachable") {
						deadReturns[vc.name]++
					} else if baseCover[o.Name] || base == nil {
						r.Status = "VACUOUS"
						violate(o.Name, "vacuity: this point/precondition became unreachable, every proof below it is void", "no-failing-input-found", o, vc)
					}
				default:
					r.Status = "cover-undecided"
				}
				reports = append(reports, r)
				continue
			}
			nObl++
			if o.Kind == "unverified-callee" && base != nil && !inBase[o.Name] && !*writeBaseline {
				// a function under contract now hands work to a function of this module that has no
				// contract and did not do so when the baseline was recorded: modular proofs do not see
				// what happens there, so what was proved about the caller no longer covers its behaviour
				r.Status = "violated-unverified-callee"
				violate(o.Name, "a function under contract for this property now calls "+o.Anchor+", a function of the module without a contract that it did not call on the committed baseline: its effects are outside the proof", "no-failing-input-found", o, vc)
				reports = append(reports, r)
				continue
			}
			if o.Kind == "spawn" && base != nil && !inBase[o.Name] && !*writeBaseline {
				// a function under contract now starts a goroutine it did not start when the baseline was
				// recorded: what that goroutine does is no longer ordered with the rest of the function,
				// so the sequential contracts proved about it no longer describe its behaviour
				r.Status = "violated-new-goroutine"
				violate(o.Name, "a function under contract for this property now starts a goroutine ("+o.Anchor+") that it did not start on the committed baseline: the work moved there is no longer ordered with the rest of the function, which the sequential contracts rely on", "no-failing-input-found", o, vc)
				reports = append(reports, r)
				continue
			}
			if o.Result == "unsat" {
				nDis++
				bySolver[o.Solver]++
				r.Status = "discharged"
				newBase.Obligations = append(newBase.Obligations, o.Name)
				if len(samples) < 6 && o.Solver != "trivial" {
					samples = append(samples, map[string]interface{}{"obligation": o.Name, "solver": o.Solver, "time_s": round3(o.TimeS), "goal": trunc(o.Cond, 300)})
				}
				reports = append(reports, r)
				continue
			}
			// not discharged
			if f := matchFinding(findings, *prop, o.Name); f != nil {
				nKnown++
				r.Status = "known-finding"
				knownLines = append(knownLines, fmt.Sprintf("KNOWN-FINDING: property=%s %s [%s]", *prop, f.Desc, o.Name))
				reports = append(reports, r)
				continue
			}
			confirmed, note := false, ""
			if o.Result == "sat" || o.Result == "unknown" || o.Result == "timeout" {
				confirmed, note = tryReplay(prog, vc, o, *verif)
			}
			switch {
			case confirmed:
				r.Status = "violated-confirmed"
				violate(o.Name, "counterexample replayed on the real code: "+note, "", o, vc)
			case inBase[o.Name] || base == nil:
				r.Status = "violated-" + o.Result
				why := "obligation of the committed baseline no longer discharges: solver says " + o.Result
				if base == nil {
					why = "obligation does not discharge (no baseline recorded): solver says " + o.Result
				}
				if note != "" {
					why += "; replay: " + note
				}
				violate(o.Name, why, "no-failing-input-found", o, vc)
			case inBaseModuloOrdinal(inBase, o.Name) && (o.Kind == "post" || o.Kind == "pre" || o.Kind == "callpre" || o.Kind == "token" || strings.HasPrefix(o.Kind, "loop-")):
				// the same contract clause of the same function (another return, call site or path:
				// only the ordinal differs) discharged on the committed baseline and does not here
				r.Status = "violated-" + o.Result + "-new-instance"
				why := "a contract clause that discharged at every program point of the committed baseline does not discharge at a program point of the changed code: solver says " + o.Result
				if note != "" {
					why += "; replay: " + note
				}
				violate(o.Name, why, "no-failing-input-found", o, vc)
			case sweepWasComplete && safetyKind(o.Kind):
				// the function's no-panic proof was complete on the committed baseline and is not any more
				r.Status = "violated-" + o.Result + "-sweep"
				why := "the no-panic proof of " + vc.name + " was complete on the committed baseline (every index, bound, nil, assertion, division and allocation obligation discharged); this obligation of the changed code does not discharge: solver says " + o.Result
				if note != "" {
					why += "; replay: " + note
				}
				violate(o.Name, why, "no-failing-input-found", o, vc)
			case o.Result == "sat":
				// not in the baseline (new or re-worded code), but the solver has a counter-model
				r.Status = "violated-sat-new"
				why := "obligation generated from changed code is refuted by the solver (counter-model attached)"
				if note != "" {
					why += "; replay: " + note
				}
				violate(o.Name, why, "no-failing-input-found", o, vc)
			default:
				nUndecidedNew++
				r.Status = "undecided-new"
				fmt.Printf("UNDECIDED-NEW %s (%s)\n", o.Name, o.Result)
			}
			reports = append(reports, r)
		}
	}
	for fn, n := range retCount {
		if n > 0 && deadReturns[fn] == n {
			violate(fn+"/cover/all-returns-unreachable", "vacuity: no return of the function is reachable under its contract and invariants; every proof in it is void", "no-failing-input-found", nil, nil)
		}
	}
	for _, t := range tables {
		nObl++
		r := oblReport{Name: t.Name, Kind: "table", Result: "unsat", Solver: "ground", Status: "discharged"}
		if t.OK {
			nDis++
			bySolver["ground-evaluation"]++
			newBase.Obligations = append(newBase.Obligations, t.Name)
			if len(samples) < 8 {
				samples = append(samples, map[string]interface{}{"obligation": t.Name, "solver": "ground evaluation over the literal tables of the working tree", "detail": trunc(t.Detail, 300)})
			}
		} else if f := matchFinding(findings, *prop, t.Name); f != nil {
			nKnown++
			r.Status, r.Result = "known-finding", "sat"
			knownLines = append(knownLines, fmt.Sprintf("KNOWN-FINDING: property=%s %s [%s]", *prop, f.Desc, t.Name))
		} else {
			r.Status, r.Result = "violated-confirmed", "sat"
			rp := filepath.Join(replayDir, fmt.Sprintf("%s-%s.json", *prop, sanitizeFile(t.Name)))
			writeJSON(rp, map[string]interface{}{"property": *prop, "obligation": t.Name, "verdict": "violated", "detail": t.Detail,
				"replay": "ground obligation over literal tables extracted from the working tree; the failing entries are listed in detail"})
			line := fmt.Sprintf("VIOLATION property=%s replay=%s", *prop, rp)
			if strings.HasPrefix(t.Name, "writers/") || strings.HasPrefix(t.Name, "closers/") || strings.HasPrefix(t.Name, "updaters/") || strings.HasPrefix(t.Name, "callers/") || strings.HasPrefix(t.Name, "table/skipped-") || strings.HasPrefix(t.Name, "table/refused-") || strings.HasPrefix(t.Name, "table/decompression-") || strings.HasPrefix(t.Name, "table/compress-") {
				// a structural scan names the offending function, it has no failing input of its own
				line += " no-failing-input-found"
			}
			violations = append(violations, line)
			fmt.Printf("  failed table obligation: %s: %s\n", t.Name, t.Detail)
		}
		seen[t.Name] = true
		reports = append(reports, r)
	}
	// baseline obligations of structural kinds that are no longer generated
	if base != nil {
		for _, n := range base.Obligations {
			if seen[n] {
				continue
			}
			if structuralKind(n) {
				if matchFinding(findings, *prop, n) != nil {
					continue
				}
				violate(n, "obligation of the committed baseline is no longer generated (contract no longer matches the code)", "no-failing-input-found", nil, nil)
			}
		}
	}
	// thorough tier: two solvers contradicting each other on an obligation is not a pass
	for _, d := range crossDisagree {
		violate("solver-disagreement/"+d, "an obligation accepted by one solver is refuted by another (thorough-tier cross-check): "+d, "no-failing-input-found", nil, nil)
	}
	if nObl == 0 {
		violations = append(violations, fmt.Sprintf("VIOLATION property=%s replay=%s no-failing-input-found", *prop, filepath.Join(replayDir, *prop+"-no-obligations.json")))
		writeJSON(filepath.Join(replayDir, *prop+"-no-obligations.json"), map[string]string{"error": "no obligations generated"})
	}

	if *writeBaseline {
		os.MkdirAll(filepath.Join(*verif, "baseline"), 0o755)
		sort.Strings(newBase.Obligations)
		sort.Strings(newBase.Covers)
		writeJSON(filepath.Join(*verif, "baseline", *prop+".json"), newBase)
	}

	for _, l := range knownLines {
		fmt.Println(l)
	}
	for _, v := range violations {
		fmt.Println(v)
	}
	wall := time.Since(start).Seconds()
	fmt.Printf("property %s: %d obligations, %d discharged, %d known findings, %d undecided-new, %d violations; %d/%d covers reached; load %.1fs, wall %.1fs\n",
		*prop, nObl, nDis, nKnown, nUndecidedNew, len(violations), nCoverSat, nCovers, loadS, wall)

	if !*noEvidence {
		sort.Strings(funcsUnder)
		ev := map[string]interface{}{
			"property_id": *prop,
			"tier":        *tier,
			"seed":        seed,
			"level":       "proof",
			"wall_s":      round3(wall),
			"violations":  len(violations),
			"coverage": map[string]interface{}{
				"obligations":                    nObl - nKnown,
				"discharged":                     nDis,
				"obligations_generated":          nObl,
				"known_finding_obligations":      nKnown,
				"obligations_note":               "obligations = obligations generated on this run minus those matched by an entry of known_findings.txt (listed under known_findings_hit; they fail and are reported as KNOWN-FINDING, never counted as proved)",
				"checker_cmd":                    fmt.Sprintf("/verif/check %s --tier %s  (govc: go/ssa VC generator over %s; solvers z3-new 5.1.0, z3 4.8.12, cvc5 1.0.3 raced per obligation, timeout %d ms)", *prop, *tier, repoDir, timeout),
				"trusted_base":                   trustedBase(assumptions),
				"samples":                        samples,
				"functions_under_contract":       funcsUnder,
				"discharged_by_solver":           bySolver,
				"solver_time_s":                  round3(solverTime),
				"known_findings_hit":             knownLines,
				"undecided_new":                  nUndecidedNew,
				"cross_checked_by_second_solver": crossConfirmed,
				"vacuity_covers":                 map[string]int{"total": nCovers, "reached": nCoverSat},
				"unsupported_constructs":         unsupported,
				"obligation_list":                reports,
				"explanation":                    "Every obligation is generated from the go/ssa form of /repo's working tree on this run (no hand model); 'discharged' counts solver answers 'unsat' for (facts-before-the-point AND path-condition AND NOT goal). Known findings are obligations that fail on the unchanged tree for a genuine, recorded defect; they are not counted as discharged.",
			},
			"assumptions": sortedSet(assumptions),
		}
		os.MkdirAll(filepath.Join(*verif, "evidence"), 0o755)
		writeJSON(filepath.Join(*verif, "evidence", *prop+".json"), ev)
	}
	if len(violations) > 0 {
		return 1
	}
	return 0
}

func flagPassed(fs *flag.FlagSet, name string) bool {
	found := false
	fs.Visit(func(f *flag.Flag) {
		if f.Name == name {
			found = true
		}
	})
	return found
}

func structuralKind(name string) bool {
	for _, k := range []string{"/post/", "/lemma/", "/loop-entry/", "/loop-back/", "/pre/", "/frame/", "/table/", "/token/", "/callpre/", "/nocall/", "/token/", "/chan-payload/"} {
		if strings.Contains(name, k) {
			return true
		}
	}
	return false
}

func matchFinding(fs []Finding, prop, name string) *Finding {
	for i := range fs {
		f := &fs[i]
		if f.Fixed || f.Prop != prop {
			continue
		}
		if f.Re.MatchString(name) {
			return f
		}
	}
	return nil
}

func trustedBase(assump map[string]bool) []string {
	tb := []string{
		"golang.org/x/tools go/ssa (v0.29.0) construction of SSA from the working tree",
		"govc VC generator (/verif/govc): memory model, call/loop rules as described in DESIGN.md section 2",
		"SMT solvers z3 5.1.0 / z3 4.8.12 / cvc5 1.0.3 (an 'unsat' from any one is accepted)",
		"Go memory safety (no unsafe): a location of static type T is only accessed at type T",
	}
	for _, a := range sortedSet(assump) {
		tb = append(tb, a)
	}
	return tb
}

func sortedSet(m map[string]bool) []string {
	var out []string
	for k := range m {
		out = append(out, k)
	}
	sort.Strings(out)
	return out
}

func round3(f float64) float64 { return float64(int(f*1000+0.5)) / 1000 }

func trunc(s string, n int) string {
	if len(s) > n {
		return s[:n] + "..."
	}
	return s
}

func writeJSON(path string, v interface{}) {
	data, _ := json.MarshalIndent(v, "", " ")
	os.WriteFile(path, append(data, '\n'), 0o644)
}

func writeReplayFile(path, prop, name, why string, o *Obl, vc *VC) {
	m := map[string]interface{}{"property": prop, "obligation": name, "reason": why}
	if o != nil {
		m["solver_result"] = o.Result
		m["solver"] = o.Solver
		m["solver_results"] = o.Results
		m["goal"] = trunc(o.Cond, 4000)
		m["path_condition"] = trunc(o.Guard, 2000)
		m["solver_output"] = trunc(o.Model, 20000)
		if o.Pos.IsValid() {
			m["where"] = fmt.Sprintf("%s:%d", o.Pos.Filename, o.Pos.Line)
		}
		if r, ok := replayNotes[o.Name]; ok {
			m["replay"] = r
		}
	}
	writeJSON(path, m)
}

var replayNotes = map[string]interface{}{}

// inBaseModuloOrdinal: the obligation name with its "#k" ordinal stripped (or with any ordinal) is in the baseline.
func inBaseModuloOrdinal(inBase map[string]bool, name string) bool {
	b := name
	if i := strings.LastIndex(name, "#"); i > 0 {
		allDigits := i+1 < len(name)
		for _, c := range name[i+1:] {
			if c < '0' || c > '9' {
				allDigits = false
			}
		}
		if allDigits {
			b = name[:i]
		}
	}
	if inBase[b] {
		return true
	}
	for k := 2; k < 12; k++ {
		if inBase[fmt.Sprintf("%s#%d", b, k)] {
			return true
		}
	}
	return false
}

// safetyKind: obligation kinds generated without any annotation for every operation that can panic.
func safetyKind(k string) bool {
	switch k {
	case "index", "slice-bounds", "nil-deref", "type-assert", "div-by-zero", "makeslice-len", "alloc-bound", "overflow", "nil-map-write", "explicit-panic", "close-nil-chan", "close-closed-chan", "send-closed-chan":
		return true
	}
	return false
}
