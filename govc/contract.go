package main

// Contract files: comment-only Go files in /repo (build tag verif) holding
// `//@` lines, and /verif/spec/*.gospec files holding the same directives
// without the comment prefix.

import (
	"bufio"
	"fmt"
	"os"
	"path/filepath"
	"regexp"
	"sort"
	"strconv"
	"strings"
)

type Clause struct {
	Private bool // proves: checked in the function's own VC, not assumed by callers
	RetIdx  int  // proves @ret:N: only at the N-th return statement of the function (in source order, from 1)
	Label string
	E     Expr
	Src   string
	File  string
	Line  int
}

type LoopContract struct {
	Invariants []Clause
	Decreases  *Clause
	Vars       []string // optional positional names for the header phis
}

type FuncContract struct {
	Pkg      string // import path
	Name     string // SSA-style relative name, e.g. (*Reader).fill, crc16, handleScan$1
	Mode     string // int | bv
	Props    []string
	AlsoProps []AlsoProp
	OnlyCalls []string
	Requires []Clause
	Ensures  []Clause
	Modifies []string // raw text of modifies targets
	HasMod   bool
	Loops    map[int]*LoopContract
	Lets     []struct {
		Name string
		E    Expr
	}
	Hints    []Hint   // unfold / use-lemma / assume at function entry
	Extern   bool     // trusted contract on a function that is not verified
	Flags    map[string]bool
	File     string
	Line     int
	Params   []string // for extern/type contracts: parameter names (binding by position)
	Results  []string
	Consumes []Consume
	Produces []string
	Transfers []Transfer
	GhostDefs []Clause
	CallPres  []CallPre
	NoCalls   []string
	Witnesses []Witness
	Measure   Expr // decreases <expr>: non-negative measure that strictly decreases at every call back into the recursion
}

// Witness: when proving the clause "ensures @Label exists Name T :: body" in the function's own VC,
// body is proved with Name bound to E (evaluated at the return). Callers assume the existential.
type Witness struct {
	Label, Name string
	E           Expr
}

// CallPre: an assertion checked immediately before calls whose callee name contains Callee;
// the call's arguments are visible as arg0, arg1, ... (receiver first).
type CallPre struct {
	Callee string
	C      Clause
}

type Hint struct {
	Writer string // established: the only function that writes Field
	Field  string // established: Type.field of a sync/atomic.Value cell
	Label  string
	Kind string // unfold | lemma | assume | established
	Loop int    // -1: function entry, else loop ordinal (assumed at the header)
	At   string // "" | "ret"
	E    Expr
	Src  string
	// instance: while proving the clause Label, the loop invariant SrcLabel of loop SrcLoop is
	// instantiated (in the state of that loop's head, where it is assumed) at the given terms
	SrcLoop  int
	SrcLabel string
	Binds    []LetBind
}

type LetBind struct {
	Name string
	E    Expr
}

// AlsoProp: clause-level membership in further properties.
type AlsoProp struct {
	Props   []string
	Labels  map[string]bool
	NoPanic bool
	Tokens  bool // the completion-token obligations (exactly-once completion or hand-over)
	Calls   bool // the nocall / onlycalls obligations (which callees the function may reach)
}

type SpecFunc struct {
	Pkg    string
	Name   string
	Params []Binder
	Ret    string
	Body   Expr // nil: uninterpreted
	Rec    bool
	Opaque bool
	Mode   string // "" (both) | bv | int
	Src    string
	File   string
	Line   int
}

type Lemma struct {
	Pkg     string
	Name    string
	Props   []string
	Mode    string
	E       Expr
	Trusted bool // axiom
	Hints   []Hint
	Src     string
	File    string
	Line    int
}

// GlobalInv: a predicate over package-level variables that are written only by init functions;
// proved at the return of the named init function, assumed at the entry of every other function
// of the package.
type GlobalInv struct {
	Pkg   string
	Name  string
	Init  string
	Props []string
	E     Expr
	Src   string
}

// ChanInv: payload invariant of a channel field: assumed for every value received from it, proved for
// every value sent on it.
type ChanInv struct {
	Pkg   string
	Field string // Type.field
	Var   string
	E     Expr
	Src   string
}

type GhostVar struct {
	Pkg   string
	Name  string
	Type  string
	Owned bool // changed only by the contracts that list it (survives calls to unknown code)
}

// Consume: the callee takes over the duty to complete the request held in Param
// (or in the variables captured by the closure passed as Param), optionally only if Cond holds
// in the post-state.
type Consume struct {
	Param    string
	E        Expr // the consumed request as an expression over the parameters (free variables for closures)
	Captured bool
	Cond     Expr
	Src      string
}

// Transfer: at calls whose callee name contains Callee, the duty for E moves out as well (the
// request rides on the one handed to the callee: its completion hook was registered on it).
type Transfer struct {
	Callee string
	E      Expr
	Src    string
}

type Contracts struct {
	Funcs  map[string]*FuncContract // key: pkg + "." + name
	Specs  map[string]*SpecFunc     // key: name (global namespace)
	Lemmas []*Lemma
	Ghosts map[string]*GhostVar
	Order  []string
	Tables []*TableCheck
	Writers []*WritersCheck
	TokLatches []string
	GlobalInvs []*GlobalInv
	ChanInvs   []*ChanInv
	TokChans   []string // Type.field of channels that carry the duty to complete the requests sent on them
	FifoChans  []string // Type.field of channels whose message order is tracked (ghost log + send/receive counters)
}

// TableCheck: ground obligations over literal tables of the repository.
// WritersCheck: every store to the field Pkg.Type.field in the module is in one of the listed functions
// (each under contract for the listed properties): the field's invariant has no other writer.
type WritersCheck struct {
	Pkg   string
	Props []string
	Field string // Type.field
	Funcs []string
	// Closers: instead of stores, every close() of the channel held in the field (and every use that
	// lets the channel value travel to where it could be closed) is inside the listed functions
	Closers bool
	// Updaters: the mutating method calls on the cell loaded from the field are inside the listed
	// functions (named pkgpath.func, any package)
	Updaters bool
	// Callers: Field names a function of the module (pkgpath.func); every static call of it in the module
	// is inside one of the listed functions (named pkgpath.func, any package)
	Callers bool
}

type TableCheck struct {
	Pkg   string
	Props []string
	Kind  string // subset | disjoint | equal
	Name  string
	Args  []string
	Src   string
}

func NewContracts() *Contracts {
	return &Contracts{Funcs: map[string]*FuncContract{}, Specs: map[string]*SpecFunc{}, Ghosts: map[string]*GhostVar{}}
}

var reLoop = regexp.MustCompile(`^loop\s+(\d+)\s+(invariant|decreases|vars|unfold|assume|lemma)\s+(.*)$`)
var reLabel = regexp.MustCompile(`^@([A-Za-z0-9_.-]+)\s+(.*)$`)

// LoadContractFile parses one file. pkg is the import path it belongs to
// ("" for global spec files, where `package <path>` lines switch it).
func (cs *Contracts) LoadContractFile(path, pkg string) error {
	f, err := os.Open(path)
	if err != nil {
		return err
	}
	defer f.Close()
	isGo := strings.HasSuffix(path, ".go")
	sc := bufio.NewScanner(f)
	sc.Buffer(make([]byte, 1<<20), 1<<20)
	var cur *FuncContract
	var curLemma *Lemma
	ln := 0
	var pending string
	var pendingLine int
	flush := func() error { return nil }
	process := func(line string, lineNo int) error {
		fail := func(f string, a ...interface{}) error {
			return fmt.Errorf("%s:%d: %s", path, lineNo, fmt.Sprintf(f, a...))
		}
		mkClause := func(rest string) (Clause, error) {
			label := ""
			if m := reLabel.FindStringSubmatch(rest); m != nil {
				label, rest = m[1], m[2]
			}
			e, err := ParseExpr(rest)
			if err != nil {
				return Clause{}, fail("%v", err)
			}
			return Clause{Label: label, E: e, Src: rest, File: path, Line: lineNo}, nil
		}
		word, rest := splitWord(line)
		switch word {
		case "package":
			pkg = rest
			cur, curLemma = nil, nil
			return nil
		case "func", "extern":
			name := rest
			var params, results []string
			if word == "extern" && strings.HasSuffix(rest, ")") {
				// extern NAME(params) [(results)] ; NAME may itself contain "(*T)"
				lastOpen := strings.LastIndex(rest, "(")
				g2 := rest[lastOpen:]
				head := strings.TrimRight(rest[:lastOpen], " ")
				if strings.HasSuffix(head, ")") && len(head) < len(rest[:lastOpen]) {
					// g2 are the results, the group before it the parameters
					results = splitList(strings.Trim(g2, "()"))
					po := strings.LastIndex(head, "(")
					params = splitList(strings.Trim(head[po:], "()"))
					name = strings.TrimSpace(head[:po])
				} else {
					params = splitList(strings.Trim(g2, "()"))
					name = strings.TrimSpace(head)
				}
			}
			cur = &FuncContract{Pkg: pkg, Name: name, Mode: "int", Loops: map[int]*LoopContract{}, Flags: map[string]bool{},
				Extern: word == "extern", File: path, Line: lineNo, Params: params, Results: results}
			key := pkg + "." + name
			if word == "extern" {
				key = name // external functions are keyed by their full go/ssa name
				cs.Funcs[pkg+"."+name] = cur
			}
			if _, dup := cs.Funcs[key]; dup && word != "extern" {
				return fail("duplicate contract for %s", key)
			}
			cs.Funcs[key] = cur
			cs.Order = append(cs.Order, key)
			curLemma = nil
			return nil
		case "spec":
			cur, curLemma = nil, nil
			sf, err := parseSpec(rest)
			if err != nil {
				return fail("%v", err)
			}
			sf.Pkg, sf.File, sf.Line = pkg, path, lineNo
			if _, dup := cs.Specs[sf.Name]; dup {
				return fail("duplicate spec %s", sf.Name)
			}
			cs.Specs[sf.Name] = sf
			return nil
		case "lemma", "axiom":
			cur = nil
			i := strings.Index(rest, ":")
			if i < 0 {
				return fail("lemma needs 'name: expr'")
			}
			name := strings.TrimSpace(rest[:i])
			mode := "int"
			if strings.HasPrefix(name, "bv ") {
				mode = "bv"
				name = strings.TrimSpace(name[3:])
			}
			e, err := ParseExpr(strings.TrimSpace(rest[i+1:]))
			if err != nil {
				return fail("%v", err)
			}
			curLemma = &Lemma{Pkg: pkg, Name: name, Mode: mode, E: e, Trusted: word == "axiom", Src: rest[i+1:], File: path, Line: lineNo}
			cs.Lemmas = append(cs.Lemmas, curLemma)
			return nil
		case "globalinv":
			// globalinv <name> <initfunc> [props=..]: expr
			i := strings.Index(rest, ":")
			if i < 0 {
				return fail("globalinv needs 'name initfunc: expr'")
			}
			hd := strings.Fields(rest[:i])
			if len(hd) < 2 {
				return fail("globalinv needs a name and an init function")
			}
			e, err := ParseExpr(strings.TrimSpace(rest[i+1:]))
			if err != nil {
				return fail("%v", err)
			}
			gi := &GlobalInv{Pkg: pkg, Name: hd[0], Init: hd[1], E: e, Src: rest[i+1:]}
			for _, h := range hd[2:] {
				if strings.HasPrefix(h, "props=") {
					gi.Props = strings.Split(h[6:], ",")
				}
			}
			cs.GlobalInvs = append(cs.GlobalInvs, gi)
			cur, curLemma = nil, nil
			return nil
		case "ghost", "ghost!":
			w2, r2 := splitWord(rest)
			cs.Ghosts[w2] = &GhostVar{Pkg: pkg, Name: w2, Type: r2, Owned: word == "ghost!"}
			return nil
		case "chaninv":
			// chaninv Type.field(x): expr
			i := strings.Index(rest, ":")
			j := strings.Index(rest, "(")
			k := strings.Index(rest, ")")
			if i < 0 || j < 0 || k < j || i < k {
				return fail("chaninv needs Type.field(x): expr")
			}
			e, err := ParseExpr(strings.TrimSpace(rest[i+1:]))
			if err != nil {
				return fail("%v", err)
			}
			cs.ChanInvs = append(cs.ChanInvs, &ChanInv{Pkg: pkg, Field: strings.TrimSpace(rest[:j]), Var: strings.TrimSpace(rest[j+1 : k]), E: e, Src: rest})
			return nil
		case "tokchan":
			cs.TokChans = append(cs.TokChans, strings.Fields(rest)...)
			return nil
		case "toklatch":
			// toklatch Type.field ...: closing this latch of an object completes it (gives up its token)
			cs.TokLatches = append(cs.TokLatches, strings.Fields(rest)...)
			return nil
		case "fifochan":
			cs.FifoChans = append(cs.FifoChans, strings.Fields(rest)...)
			return nil
		case "writers":
			// writers props=C19 Type.field func func ...
			fs := strings.Fields(rest)
			wc := &WritersCheck{Pkg: pkg}
			for _, a := range fs {
				if strings.HasPrefix(a, "props=") {
					wc.Props = strings.Split(a[6:], ",")
				} else if wc.Field == "" {
					wc.Field = a
				} else {
					wc.Funcs = append(wc.Funcs, a)
				}
			}
			if wc.Field == "" || len(wc.Funcs) == 0 {
				return fail("writers needs Type.field and at least one function")
			}
			cs.Writers = append(cs.Writers, wc)
			return nil
		case "updaters":
			// updaters props=C20 Type.field f1 f2 ...: only the listed functions (of any package of the module)
			// call a mutating method (Inc, Dec, Add, Sub, Set, Update, Store) on the cell held in this field
			fs := strings.Fields(rest)
			wc := &WritersCheck{Pkg: pkg, Updaters: true}
			for _, a := range fs {
				if strings.HasPrefix(a, "props=") {
					wc.Props = strings.Split(a[6:], ",")
				} else if wc.Field == "" {
					wc.Field = a
				} else {
					wc.Funcs = append(wc.Funcs, a)
				}
			}
			if wc.Field == "" || len(wc.Funcs) == 0 {
				return fail("updaters needs Type.field and at least one function")
			}
			cs.Writers = append(cs.Writers, wc)
			return nil
		case "callers":
			// callers props=C15 pkg.func f1 f2 ...: only the listed functions (of any package of the module)
			// call the named function
			fs := strings.Fields(rest)
			wc := &WritersCheck{Pkg: pkg, Callers: true}
			for _, a := range fs {
				if strings.HasPrefix(a, "props=") {
					wc.Props = strings.Split(a[6:], ",")
				} else if wc.Field == "" {
					wc.Field = a
				} else {
					wc.Funcs = append(wc.Funcs, a)
				}
			}
			if wc.Field == "" || len(wc.Funcs) == 0 {
				return fail("callers needs a function and at least one caller")
			}
			cs.Writers = append(cs.Writers, wc)
			return nil
		case "closers":
			// closers props=C09 Type.field func func ... : only the listed functions close the channel in this field
			fs := strings.Fields(rest)
			wc := &WritersCheck{Pkg: pkg, Closers: true}
			for _, a := range fs {
				if strings.HasPrefix(a, "props=") {
					wc.Props = strings.Split(a[6:], ",")
				} else if wc.Field == "" {
					wc.Field = a
				} else {
					wc.Funcs = append(wc.Funcs, a)
				}
			}
			if wc.Field == "" || len(wc.Funcs) == 0 {
				return fail("closers needs Type.field and at least one function")
			}
			cs.Writers = append(cs.Writers, wc)
			return nil
		case "table":
			// table <kind> <name> args... ; props via following "prop" line not supported: inline "props=C14"
			fs := strings.Fields(rest)
			if len(fs) < 3 {
				return fail("table needs kind name args")
			}
			tc := &TableCheck{Pkg: pkg, Kind: fs[0], Name: fs[1], Src: rest}
			for _, a := range fs[2:] {
				if strings.HasPrefix(a, "props=") {
					tc.Props = strings.Split(a[6:], ",")
				} else {
					tc.Args = append(tc.Args, a)
				}
			}
			cs.Tables = append(cs.Tables, tc)
			return nil
		}
		if curLemma != nil {
			switch word {
			case "prop":
				curLemma.Props = strings.Fields(rest)
				return nil
			case "mode":
				curLemma.Mode = rest
				return nil
			case "unfold", "use":
				e, err := ParseExpr(strings.TrimPrefix(rest, "lemma "))
				if err != nil {
					return fail("%v", err)
				}
				k := "unfold"
				if word == "use" {
					k = "lemma"
				}
				curLemma.Hints = append(curLemma.Hints, Hint{Kind: k, Loop: -1, E: e, Src: rest})
				return nil
			}
			return fail("unknown lemma directive %q", word)
		}
		if cur == nil {
			return fail("directive %q outside a func block", word)
		}
		switch word {
		case "mode":
			if rest != "int" && rest != "bv" {
				return fail("mode must be int or bv")
			}
			cur.Mode = rest
		case "prop":
			cur.Props = append(cur.Props, strings.Fields(rest)...)
		case "onlycalls":
			// onlycalls A B C: every call in the function goes to a callee whose name contains one of these
			cur.OnlyCalls = append(cur.OnlyCalls, strings.Fields(rest)...)
		case "alsoprop":
			// alsoprop C04 C07 : label1 label2 no-panic
			// the obligations of the named clauses (and, with no-panic, the safety obligations) of this
			// function are also obligations of the listed properties, which the function as a whole is not
			i := strings.Index(rest, ":")
			if i < 0 {
				return fail("alsoprop needs: <props> : <labels | no-panic>")
			}
			ap := AlsoProp{Props: strings.Fields(rest[:i]), Labels: map[string]bool{}}
			for _, l := range strings.Fields(rest[i+1:]) {
				if l == "no-panic" {
					ap.NoPanic = true
				} else if l == "tokens" {
					ap.Tokens = true
				} else if l == "calls" {
					ap.Calls = true
				} else {
					ap.Labels[strings.TrimPrefix(l, "@")] = true
				}
			}
			cur.AlsoProps = append(cur.AlsoProps, ap)
		case "flag":
			for _, f := range strings.Fields(rest) {
				cur.Flags[f] = true
			}
		case "requires":
			c, err := mkClause(rest)
			if err != nil {
				return err
			}
			cur.Requires = append(cur.Requires, c)
		case "ensures":
			c, err := mkClause(rest)
			if err != nil {
				return err
			}
			cur.Ensures = append(cur.Ensures, c)
		case "proves":
			// a postcondition proved in the function's own VC (a lemma for its later postconditions)
			// that callers do not get
			retIdx := 0
			if strings.HasPrefix(rest, "@ret:") {
				w2, r2 := splitWord(rest)
				n, e2 := strconv.Atoi(w2[len("@ret:"):])
				if e2 != nil || n < 1 {
					return fail("proves @ret:N needs a positive number")
				}
				retIdx, rest = n, r2
			}
			c, err := mkClause(rest)
			if err != nil {
				return err
			}
			c.Private = true
			c.RetIdx = retIdx
			cur.Ensures = append(cur.Ensures, c)
		case "nocall":
			cur.NoCalls = append(cur.NoCalls, strings.Fields(rest)...)
		case "callpre":
			w2, r2 := splitWord(rest)
			c, err := mkClause(r2)
			if err != nil {
				return err
			}
			cur.CallPres = append(cur.CallPres, CallPre{Callee: w2, C: c})
		case "ghostdef":
			c, err := mkClause(rest)
			if err != nil {
				return err
			}
			cur.GhostDefs = append(cur.GhostDefs, c)
		case "modifies":
			cur.HasMod = true
			if rest != "" && rest != "nothing" {
				cur.Modifies = append(cur.Modifies, splitTop(rest)...)
			}
		case "consumes":
			cn := Consume{Src: rest}
			body := rest
			if i := strings.Index(rest, " if "); i >= 0 {
				e, err := ParseExpr(strings.TrimSpace(rest[i+4:]))
				if err != nil {
					return fail("%v", err)
				}
				cn.Cond = e
				body = strings.TrimSpace(rest[:i])
			}
			if strings.HasPrefix(body, "captured(") && strings.HasSuffix(body, ")") {
				cn.Captured = true
				body = body[len("captured(") : len(body)-1]
			}
			cn.Param = body
			if !cn.Captured {
				e, err := ParseExpr(body)
				if err != nil {
					return fail("%v", err)
				}
				cn.E = e
			}
			cur.Consumes = append(cur.Consumes, cn)
		case "transfers":
			w2, r2 := splitWord(rest)
			e, err := ParseExpr(r2)
			if err != nil {
				return fail("%v", err)
			}
			cur.Transfers = append(cur.Transfers, Transfer{Callee: w2, E: e, Src: rest})
		case "produces":
			cur.Produces = append(cur.Produces, splitList(rest)...)
		case "decreases":
			e, err := ParseExpr(rest)
			if err != nil {
				return fail("%v", err)
			}
			cur.Measure = e
		case "witness":
			// witness @label name = expr
			fs := strings.SplitN(rest, " ", 2)
			if len(fs) < 2 || !strings.HasPrefix(fs[0], "@") {
				return fail("witness needs @label name = expr")
			}
			i := strings.Index(fs[1], "=")
			if i < 0 {
				return fail("witness needs name = expr")
			}
			e, err := ParseExpr(strings.TrimSpace(fs[1][i+1:]))
			if err != nil {
				return fail("%v", err)
			}
			cur.Witnesses = append(cur.Witnesses, Witness{Label: fs[0][1:], Name: strings.TrimSpace(fs[1][:i]), E: e})
		case "let":
			i := strings.Index(rest, "=")
			if i < 0 {
				return fail("let needs name = expr")
			}
			e, err := ParseExpr(strings.TrimSpace(rest[i+1:]))
			if err != nil {
				return fail("%v", err)
			}
			cur.Lets = append(cur.Lets, struct {
				Name string
				E    Expr
			}{strings.TrimSpace(rest[:i]), e})
		case "established":
			// established [@before:callee|@after:callee] <writer func[,func]> <Type.field> @label <expr>
			eat := ""
			if strings.HasPrefix(rest, "@before:") || strings.HasPrefix(rest, "@after:") {
				w2, r2 := splitWord(rest)
				eat = w2[1:]
				rest = r2
			} else if strings.HasPrefix(rest, "@ret ") {
				eat = "ret"
				rest = strings.TrimSpace(rest[5:])
			}
			fs := strings.SplitN(rest, " ", 3)
			if len(fs) < 3 {
				return fail("established needs writer, field and expression")
			}
			c, err := mkClause(fs[2])
			if err != nil {
				return err
			}
			cur.Hints = append(cur.Hints, Hint{Kind: "established", Loop: -1, At: eat, Writer: fs[0], Field: fs[1], Label: c.Label, E: c.E, Src: fs[2]})
		case "instance":
			// instance @target of loop N @source with x = e1, y = e2
			m := reInstance.FindStringSubmatch(rest)
			if m == nil {
				return fail("instance needs: @target of loop N @source with x = e, ...")
			}
			n, _ := strconv.Atoi(m[2])
			h := Hint{Kind: "instance", Loop: -2, Label: m[1], SrcLoop: n, SrcLabel: m[3], Src: rest}
			for _, b := range splitTop(m[4]) {
				i := strings.Index(b, "=")
				if i < 0 {
					return fail("instance binding needs name = expr")
				}
				e, err := ParseExpr(strings.TrimSpace(b[i+1:]))
				if err != nil {
					return fail("%v", err)
				}
				h.Binds = append(h.Binds, LetBind{strings.TrimSpace(b[:i]), e})
			}
			cur.Hints = append(cur.Hints, h)
		case "unfold", "use", "assume":
			at := ""
			if strings.HasPrefix(rest, "@ret ") {
				at = "ret"
				rest = strings.TrimSpace(rest[5:])
			} else if strings.HasPrefix(rest, "@before:") || strings.HasPrefix(rest, "@after:") {
				// hint placed right before / after the calls whose callee name contains the text
				w2, r2 := splitWord(rest)
				at = w2[1:]
				rest = r2
			}
			e, err := ParseExpr(strings.TrimPrefix(rest, "lemma "))
			if err != nil {
				return fail("%v", err)
			}
			k := map[string]string{"unfold": "unfold", "use": "lemma", "assume": "assume"}[word]
			cur.Hints = append(cur.Hints, Hint{Kind: k, Loop: -1, At: at, E: e, Src: rest})
		case "loop":
			m := reLoop.FindStringSubmatch(line)
			if m == nil {
				return fail("bad loop directive")
			}
			n, _ := strconv.Atoi(m[1])
			lc := cur.Loops[n]
			if lc == nil {
				lc = &LoopContract{}
				cur.Loops[n] = lc
			}
			switch m[2] {
			case "invariant":
				c, err := mkClause(m[3])
				if err != nil {
					return err
				}
				lc.Invariants = append(lc.Invariants, c)
			case "decreases":
				c, err := mkClause(m[3])
				if err != nil {
					return err
				}
				lc.Decreases = &c
			case "vars":
				lc.Vars = splitList(strings.Trim(m[3], "()"))
			case "unfold", "assume", "lemma":
				e, err := ParseExpr(m[3])
				if err != nil {
					return fail("%v", err)
				}
				cur.Hints = append(cur.Hints, Hint{Kind: m[2], Loop: n, E: e, Src: m[3]})
			}
		default:
			return fail("unknown directive %q", word)
		}
		return nil
	}
	_ = flush
	for sc.Scan() {
		ln++
		line := sc.Text()
		t := strings.TrimSpace(line)
		if isGo {
			if !strings.HasPrefix(t, "//@") {
				continue
			}
			t = strings.TrimSpace(t[3:])
		}
		if t == "" || strings.HasPrefix(t, "#") {
			continue
		}
		// strip trailing comment " # ..."
		if i := strings.Index(t, " # "); i >= 0 {
			t = strings.TrimSpace(t[:i])
		}
		// continuation: a line starting with "|" continues the previous directive
		if strings.HasPrefix(t, "|") {
			pending += " " + strings.TrimSpace(t[1:])
			continue
		}
		if pending != "" {
			if err := process(pending, pendingLine); err != nil {
				return err
			}
		}
		pending, pendingLine = t, ln
	}
	if pending != "" {
		if err := process(pending, pendingLine); err != nil {
			return err
		}
	}
	return sc.Err()
}

func splitWord(s string) (string, string) {
	s = strings.TrimSpace(s)
	i := strings.IndexAny(s, " \t")
	if i < 0 {
		return s, ""
	}
	return s[:i], strings.TrimSpace(s[i+1:])
}

var reInstance = regexp.MustCompile(`^@(\S+)\s+of\s+loop\s+(\d+)\s+@(\S+)\s+with\s+(.*)$`)

func splitList(s string) []string {
	var out []string
	for _, p := range strings.Split(s, ",") {
		p = strings.TrimSpace(p)
		if p != "" {
			out = append(out, p)
		}
	}
	return out
}

// splitTop splits on commas not nested in brackets/parens.
func splitTop(s string) []string {
	var out []string
	depth, start := 0, 0
	for i, c := range s {
		switch c {
		case '(', '[':
			depth++
		case ')', ']':
			depth--
		case ',':
			if depth == 0 {
				out = append(out, strings.TrimSpace(s[start:i]))
				start = i + 1
			}
		}
	}
	if t := strings.TrimSpace(s[start:]); t != "" {
		out = append(out, t)
	}
	return out
}

// parseSpec: [bv|int] [rec] name(p1 T1, p2 T2) RetType [= expr]
func parseSpec(s string) (*SpecFunc, error) {
	sf := &SpecFunc{Src: s}
	for {
		w, r := splitWord(s)
		if w == "bv" || w == "int" {
			sf.Mode = w
			s = r
			continue
		}
		if w == "rec" {
			sf.Rec = true
			s = r
			continue
		}
		if w == "opaque" {
			// an uninterpreted symbol with its definition as a quantified axiom triggered by the
			// application itself: usable as a pattern (a define-fun macro is not), no unfolding needed
			sf.Opaque = true
			s = r
			continue
		}
		break
	}
	i := strings.Index(s, "(")
	if i < 0 {
		return nil, fmt.Errorf("spec needs parameter list")
	}
	sf.Name = strings.TrimSpace(s[:i])
	// find matching paren
	depth, j := 0, i
	for ; j < len(s); j++ {
		if s[j] == '(' {
			depth++
		} else if s[j] == ')' {
			depth--
			if depth == 0 {
				break
			}
		}
	}
	ps := s[i+1 : j]
	for _, p := range splitTop(ps) {
		w, r := splitWord(p)
		sf.Params = append(sf.Params, Binder{w, r})
	}
	// "a, b int" style: fill missing types from the right
	for k := len(sf.Params) - 1; k >= 0; k-- {
		if sf.Params[k].Type == "" && k+1 < len(sf.Params) {
			sf.Params[k].Type = sf.Params[k+1].Type
		}
	}
	rest := strings.TrimSpace(s[j+1:])
	if k := strings.Index(rest, "="); k >= 0 {
		sf.Ret = strings.TrimSpace(rest[:k])
		e, err := ParseExpr(strings.TrimSpace(rest[k+1:]))
		if err != nil {
			return nil, err
		}
		sf.Body = e
	} else {
		sf.Ret = rest
	}
	if sf.Ret == "" {
		return nil, fmt.Errorf("spec %s needs a result type", sf.Name)
	}
	return sf, nil
}

// LoadAll loads every zz_contracts_verif.go under repo and every *.gospec under specDir.
func LoadAllContracts(repo, module, specDir string) (*Contracts, error) {
	cs := NewContracts()
	var files []string
	filepath.Walk(repo, func(p string, info os.FileInfo, err error) error {
		if err != nil {
			return nil
		}
		if info.IsDir() && (info.Name() == ".git" || info.Name() == "vendor") {
			return filepath.SkipDir
		}
		if !info.IsDir() && info.Name() == "zz_contracts_verif.go" {
			files = append(files, p)
		}
		return nil
	})
	sort.Strings(files)
	for _, p := range files {
		rel, _ := filepath.Rel(repo, filepath.Dir(p))
		pkg := module
		if rel != "." {
			pkg = module + "/" + filepath.ToSlash(rel)
		}
		if err := cs.LoadContractFile(p, pkg); err != nil {
			return nil, err
		}
	}
	specs, _ := filepath.Glob(filepath.Join(specDir, "*.gospec"))
	sort.Strings(specs)
	for _, p := range specs {
		if err := cs.LoadContractFile(p, ""); err != nil {
			return nil, err
		}
	}
	return cs, nil
}
