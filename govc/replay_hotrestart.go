package main

import "fmt"

func init() {
	replayGens["hotrestart.readMessage"] = replayReadMessage
}

// replayReadMessage: the model's datagram (length n, header bytes) is sent over a
// real socketpair and readMessage is run on it.
func replayReadMessage(rc *ReplayCtx) (string, string, string, bool) {
	call := rc.findCall("ReadMsgUnix")
	if call == nil {
		return "", "", "", false
	}
	tup := rc.vc.vals[call]
	if len(tup.Tup) < 1 {
		return "", "", "", false
	}
	ns, ok := rc.EvalInts(true, tup.Tup[0].S)
	if !ok || ns[0] < 0 || ns[0] > 65536 {
		return "", "", "", false
	}
	n := ns[0]
	buf := rc.vc.val(call.Call.Args[1])
	post := rc.vc.callPost[call]
	hdr, ok := rc.SliceBytes(buf.S, rc.byteHeap(post), 3)
	if !ok {
		return "", "", "", false
	}
	src := fmt.Sprintf(`package hotrestart

import (
	"bytes"
	"fmt"
	"net"
	"os"
	"syscall"
	"testing"
)

func TestGovcReplayReadMessage(t *testing.T) {
	n := %d
	hdr := %s
	frame := make([]byte, n)
	for i := range frame {
		frame[i] = 0xAA
	}
	copy(frame, hdr)
	fds, err := syscall.Socketpair(syscall.AF_UNIX, syscall.SOCK_DGRAM, 0)
	if err != nil {
		t.Skip(err)
	}
	mk := func(fd int) *net.UnixConn {
		f := os.NewFile(uintptr(fd), "sp")
		c, err := net.FileConn(f)
		f.Close()
		if err != nil {
			t.Skip(err)
		}
		return c.(*net.UnixConn)
	}
	a, b := mk(fds[0]), mk(fds[1])
	defer a.Close()
	defer b.Close()
	if _, err := a.Write(frame); err != nil {
		t.Skip(err)
	}
	var msg *message
	var rerr error
	func() {
		defer func() {
			if r := recover(); r != nil {
				t.Fatalf("REPLAY-VIOLATION readMessage panicked on a %%d-byte frame with header %%v: %%v", n, hdr, r)
			}
		}()
		msg, rerr = readMessage(b)
	}()
	if rerr != nil {
		return
	}
	if 3+int(msg.Len) > n {
		t.Fatalf("REPLAY-VIOLATION readMessage accepted a %%d-byte frame declaring a %%d-byte payload (only %%d payload bytes were sent); Data=%%s", n, msg.Len, n-3, fmt.Sprint(len(msg.Data)))
	}
	if !bytes.Equal(msg.Data, frame[3:3+int(msg.Len)]) || byte(msg.Type) != frame[0] {
		t.Fatalf("REPLAY-VIOLATION readMessage returned a different message than was sent")
	}
}
`, n, goBytes(hdr))
	return "cmd/samaritan/hotrestart", "TestGovcReplayReadMessage", src, true
}
