package main

// tryReplay turns a solver model into a concrete input and runs the real code.
func tryReplay(prog *Program, vc *VC, o *Obl, verif string) (bool, string) {
	return false, ""
}
