#!/usr/bin/env python3
"""Refreshes the generated parts of DESIGN.md: the per-property 'As built' blocks (from tools/claims.py,
baselines, seeds and known_findings.txt) and the status table of the build report."""
import json, re, glob, os
V='/verif'
claimed={}; not_applicable={}
exec(open(f'{V}/tools/claims.py').read())
props=[json.loads(l) for l in open(f'{V}/properties.jsonl')]
seeds={}
for d in sorted(glob.glob(f'{V}/seeded/*')):
    try:
        m=json.load(open(d+'/meta.json'))
    except Exception:
        continue
    seeds.setdefault(m.get('property'),[]).append((os.path.basename(d), m))
fixed={}; finding={}
for l in open(f'{V}/known_findings.txt'):
    l=l.strip()
    m=re.match(r'(fixed|finding): property=(C\d+) (.*)',l)
    if m:
        (fixed if m.group(1)=='fixed' else finding).setdefault(m.group(2),[]).append(m.group(3))
def nobl(pid):
    try:
        return len(json.load(open(f'{V}/baseline/{pid}.json'))['obligations'])
    except Exception:
        return 0
seedres={}
try:
    for l in open(f'{V}/seeded/RESULTS.txt'):
        m=re.match(r'(\S+): property (C\d+) exit=(\d) violations=(\d+) replay-confirmed=(\d+)',l)
        if m: seedres[m.group(1)]=(m.group(3),m.group(4),m.group(5))
except Exception:
    pass
s=open(f'{V}/DESIGN.md').read()
for p in props:
    pid=p['id']
    c=claimed.get(pid)
    blk=[f'<!-- as-built:{pid} -->','**As built.** ']
    if c:
        blk.append(f"*Decided (level: proof, {nobl(pid)} obligations discharged on the unchanged tree):* {c['text']}")
        blk.append('')
        blk.append(f"*Assumed / not decided:* {c['note']}")
    else:
        blk.append('Not claimed: '+not_applicable.get(pid,'check not built'))
    if fixed.get(pid):
        blk.append('')
        blk.append('*Genuine defects repaired (`fix:` commits in /repo):* '+' '.join(f"({i+1}) {t.split(' ',1)[0]}: {t.split(' ',1)[1][:260]}…" for i,t in enumerate(fixed[pid])))
    if finding.get(pid):
        blk.append('')
        blk.append('*Known findings (recorded, not repaired):* '+' '.join(t[:400]+'…' for t in finding[pid]))
    if seeds.get(pid):
        blk.append('')
        blk.append('*Seeded changes:* '+'; '.join(f"`{n}` ({'caught, exit 1, '+seedres[n][1]+' failing obligations'+(', '+seedres[n][2]+' replay-confirmed' if seedres[n][2]!='0' else '') if n in seedres and seedres[n][0]=='1' else ('NOT caught' if n in seedres else 'not yet run')})" for n,_ in seeds[pid]))
    blk.append('<!-- /as-built -->')
    text='\n'.join(blk)
    pat=re.compile(rf'<!-- as-built:{pid} -->.*?<!-- /as-built -->',re.S)
    if pat.search(s):
        s=pat.sub(lambda m: text,s)
    else:
        s=re.sub(rf'(### {pid} — [^\n]*\n)', lambda m: m.group(1)+'\n'+text+'\n\nDesign-time plan (kept for the record; where it differs from the block above, the block above is what exists):\n', s, count=1)
# status table
rows=['| id | obligations discharged | known findings | fixes | seeds (caught/total) |','|----|----|----|----|----|']
for p in props:
    pid=p['id']
    sl=seeds.get(pid,[])
    caught=sum(1 for n,_ in sl if n in seedres and seedres[n][0]=='1')
    rows.append(f"| {pid} | {nobl(pid) if pid in claimed else 'not claimed'} | {len(finding.get(pid,[]))} | {len(fixed.get(pid,[]))} | {caught}/{len(sl)} |")
tab='<!-- status-table -->\n'+'\n'.join(rows)+'\n<!-- /status-table -->'
pat=re.compile(r'<!-- status-table -->.*?<!-- /status-table -->',re.S)
if pat.search(s):
    s=pat.sub(lambda m: tab,s)
open(f'{V}/DESIGN.md','w').write(s)
print('DESIGN.md refreshed')
