package main

import "strings"

func init() {
	replayGens["host.(*Set).add"] = func(rc *ReplayCtx) (string, string, string, bool) { return replayStaleTierEntry(rc, true) }
	replayGens["host.(*Set).remove"] = func(rc *ReplayCtx) (string, string, string, bool) { return replayStaleTierEntry(rc, false) }
}

// the same address re-added (or removed) as a host of another type: the old host object stays in the
// tier of its type and keeps being reported as usable
func replayStaleTierEntry(rc *ReplayCtx, readd bool) (string, string, string, bool) {
	if !strings.Contains(rc.o.Name, "loop0") && !strings.Contains(rc.o.Name, "usable-hosts-are-current-members") {
		return "", "", "", false
	}
	src := `package host

import "testing"

func govcCheckUsableAreMembers(t *testing.T, s *Set, what string) {
	for _, h := range s.Healthy() {
		s.RLock()
		cur, ok := s.all[h.Addr]
		s.RUnlock()
		if !ok || cur != h {
			t.Fatalf("REPLAY-VIOLATION %s: Healthy() reports %s (type %v) which is not a current member of the set (member present: %v)", what, h.Addr, h.Type, ok)
		}
	}
}

func TestGovcReplayStaleTierEntry(t *testing.T) {
	if READD {
		// re-added with another type
		s := NewSet()
		s.Add(NewWithType("10.0.0.1:80", TypeMain))
		s.Add(NewWithType("10.0.0.1:80", TypeBackup))
		govcCheckUsableAreMembers(t, s, "after the address was added again as a backup host")
		return
	}
	// removed through a host object of another type (the controller builds host objects from the endpoint lists)
	s := NewSet()
	s.Add(NewWithType("10.0.0.2:80", TypeMain))
	s.Remove(NewWithType("10.0.0.2:80", TypeBackup))
	govcCheckUsableAreMembers(t, s, "after the address was removed")
}
`
	if readd {
		src = strings.Replace(src, "READD", "true", 1)
	} else {
		src = strings.Replace(src, "READD", "false", 1)
	}
	return "host", "TestGovcReplayStaleTierEntry", src, true
}
