package main

import (
	"bytes"
	"context"
	"fmt"
	"os"
	"os/exec"
	"path/filepath"
	"sort"
	"strings"
	"sync"
	"time"
)

// Query builds the SMT-LIB text for one obligation.
func (vc *VC) Query(o *Obl) string {
	var sb strings.Builder
	sb.WriteString(vc.ar.prelude())
	for _, d := range vc.structDecl {
		sb.WriteString(d + "\n")
	}
	for _, d := range vc.decls {
		sb.WriteString(d + "\n")
	}
	// string literals
	lits := sortedKeys(vc.strLits)
	for _, s := range lits {
		n := vc.strLits[s]
		fmt.Fprintf(&sb, "(assert (= (slen_ %s) %s))\n", n, vc.ar.ix(int64(len(s))))
		if len(s) <= 64 {
			for i := 0; i < len(s); i++ {
				by := fmt.Sprint(s[i])
				if vc.ar.BV {
					by = fmt.Sprintf("(_ bv%d 8)", s[i])
				}
				fmt.Fprintf(&sb, "(assert (= (sat_ %s %s) %s))\n", n, vc.ar.ix(int64(i)), by)
			}
		}
	}
	if len(lits) > 1 {
		var ns []string
		for _, s := range lits {
			ns = append(ns, vc.strLits[s])
		}
		fmt.Fprintf(&sb, "(assert (distinct %s))\n", strings.Join(ns, " "))
	}
	for _, d := range vc.romFacts {
		sb.WriteString(d + "\n")
	}
	for _, d := range vc.specDefs {
		sb.WriteString(d + "\n")
	}
	for _, f := range vc.facts {
		if f.Seq < o.Seq {
			fmt.Fprintf(&sb, "(assert %s)\n", f.Term)
		}
	}
	fmt.Fprintf(&sb, "(assert %s)\n", o.Guard)
	fmt.Fprintf(&sb, "(assert (not %s))\n", o.Cond)
	sb.WriteString("(check-sat)\n")
	return sb.String()
}

type solverSpec struct {
	name string
	args func(file string, timeoutMs int) []string
}

var solvers = []solverSpec{
	{"z3-new", func(f string, t int) []string { return []string{"z3-new", fmt.Sprintf("-t:%d", t), f} }},
	{"z3", func(f string, t int) []string { return []string{"z3", fmt.Sprintf("-t:%d", t), f} }},
	{"cvc5", func(f string, t int) []string {
		return []string{"cvc5", fmt.Sprintf("--tlimit=%d", t), "--produce-models", f}
	}},
}

type solveOut struct {
	solver string
	result string
	out    string
	dur    float64
}

func runSolver(ctx context.Context, s solverSpec, file string, timeoutMs int) solveOut {
	start := time.Now()
	cctx, cancel := context.WithTimeout(ctx, time.Duration(timeoutMs+2000)*time.Millisecond)
	defer cancel()
	a := s.args(file, timeoutMs)
	cmd := exec.CommandContext(cctx, a[0], a[1:]...)
	var buf bytes.Buffer
	cmd.Stdout = &buf
	cmd.Stderr = &buf
	cmd.Run()
	out := buf.String()
	first := ""
	for _, ln := range strings.Split(out, "\n") {
		ln = strings.TrimSpace(ln)
		if ln == "" || strings.HasPrefix(ln, "WARNING") {
			continue
		}
		first = ln
		break
	}
	res := "unknown"
	switch {
	case first == "unsat":
		res = "unsat"
	case first == "sat":
		res = "sat"
	case first == "timeout" || cctx.Err() != nil:
		res = "timeout"
	case strings.HasPrefix(first, "(error") || strings.Contains(first, "rror"):
		res = "error"
	}
	return solveOut{s.name, res, out, time.Since(start).Seconds()}
}

// Solve decides one obligation: quick attempt with z3-new, then a race.
func Solve(o *Obl, query string, dir string, timeoutMs int, wantModel bool) {
	if o.Result != "" {
		return
	}
	file := filepath.Join(dir, sanitizeFile(o.Name)+".smt2")
	q := query
	if wantModel {
		q += "(get-model)\n"
	}
	os.WriteFile(file, []byte(q), 0o644)
	o.Query = file
	o.Results = map[string]string{}
	start := time.Now()
	t1 := min(timeoutMs, 4000)
	if o.Expect == "sat" {
		t1 = min(timeoutMs, 1500)
	}
	first := runSolver(context.Background(), solvers[0], file, t1)
	o.Results[first.solver] = first.result
	if o.Expect == "sat" && first.result != "unsat" && first.result != "sat" {
		// a cover that is not refuted quickly is good enough
		o.Result, o.Solver, o.TimeS = first.result, first.solver, first.dur
		return
	}
	if first.result == "unsat" || first.result == "sat" {
		o.Result, o.Solver, o.TimeS = first.result, first.solver, first.dur
		if first.result == "sat" {
			o.Model = first.out
		}
		return
	}
	if first.result == "error" {
		o.Model = first.out
	}
	ctx, cancel := context.WithCancel(context.Background())
	defer cancel()
	ch := make(chan solveOut, len(solvers))
	for _, s := range solvers {
		s := s
		go func() { ch <- runSolver(ctx, s, file, timeoutMs) }()
	}
	best := solveOut{result: "unknown"}
	for range solvers {
		r := <-ch
		o.Results[r.solver] = r.result
		if r.result == "unsat" || r.result == "sat" {
			best = r
			cancel()
			break
		}
		if r.result == "timeout" && best.result == "unknown" {
			best = r
		}
		if r.result == "error" && o.Model == "" {
			o.Model = r.out
		}
	}
	o.Result, o.Solver, o.TimeS = best.result, best.solver, time.Since(start).Seconds()
	if best.result == "sat" {
		o.Model = best.out
	}
	if (best.result == "unknown" || best.result == "timeout") && len(o.Cases) > 1 && o.Expect == "" {
		if splitByPath(o, query, file, timeoutMs) {
			o.Result, o.Solver, o.TimeS = "unsat", fmt.Sprintf("z3-new (split over %d incoming paths)", len(o.Cases)), time.Since(start).Seconds()
			o.Results["split"] = "unsat"
		}
	}
	if best.result == "unknown" {
		nerr := 0
		for _, r := range o.Results {
			if r == "error" {
				nerr++
			}
		}
		if nerr == len(solvers) {
			o.Result = "error"
			fmt.Fprintf(os.Stderr, "SOLVER-ERROR on %s: %s\n", o.Name, firstLine(o.Model))
		}
	}
}

func sanitizeFile(s string) string {
	s = reMangle.ReplaceAllString(s, "_")
	if len(s) > 150 {
		s = s[:150]
	}
	return s
}

// SolveAll runs the obligations of several VCs on a worker pool.
type job struct {
	vc *VC
	o  *Obl
}

func SolveAll(jobs []job, dir string, timeoutMs int, workers int) {
	var wg sync.WaitGroup
	ch := make(chan job)
	for i := 0; i < workers; i++ {
		wg.Add(1)
		go func() {
			defer wg.Done()
			for j := range ch {
				if j.o.Result != "" {
					continue
				}
				Solve(j.o, j.vc.Query(j.o), dir, timeoutMs, true)
			}
		}()
	}
	// longest-looking first is unknown; keep order stable
	sort.SliceStable(jobs, func(a, b int) bool { return false })
	for _, j := range jobs {
		ch <- j
	}
	close(ch)
	wg.Wait()
}

func firstLine(s string) string {
	for _, l := range strings.Split(s, "\n") {
		if strings.TrimSpace(l) != "" {
			return l
		}
	}
	return ""
}

// CrossCheck re-runs every discharged obligation on the solvers that did not decide it (thorough
// tier): a second "unsat" is recorded, a "sat" is a disagreement between solvers and is reported.
func CrossCheck(jobs []job, budgetMs int, workers int) (confirmed int, disagreements []string) {
	var mu sync.Mutex
	var wg sync.WaitGroup
	ch := make(chan job)
	for i := 0; i < workers; i++ {
		wg.Add(1)
		go func() {
			defer wg.Done()
			for j := range ch {
				o := j.o
				if o.Result != "unsat" || o.Expect == "sat" || o.Query == "" || o.Solver == "trivial" || o.Solver == "ground" {
					continue
				}
				second := false
				for _, s := range solvers {
					if s.name == o.Solver {
						continue
					}
					if r, done := o.Results[s.name]; done && (r == "unsat" || r == "sat") {
						if r == "unsat" {
							second = true
						}
						continue
					}
					r := runSolver(context.Background(), s, o.Query, budgetMs)
					mu.Lock()
					o.Results[s.name] = r.result
					mu.Unlock()
					if r.result == "unsat" {
						second = true
						break
					}
					if r.result == "sat" {
						mu.Lock()
						disagreements = append(disagreements, fmt.Sprintf("%s: %s says unsat, %s says sat", o.Name, o.Solver, s.name))
						mu.Unlock()
					}
				}
				if second {
					mu.Lock()
					confirmed++
					mu.Unlock()
				}
			}
		}()
	}
	for _, j := range jobs {
		ch <- j
	}
	close(ch)
	wg.Wait()
	return
}

// splitByPath: the obligation sits in a block with several incoming forward edges; the query is
// decided once per edge (its condition asserted) and once for "none of them" (which the reach
// definitions refute). All cases unsat = the obligation is discharged.
func splitByPath(o *Obl, query, file string, timeoutMs int) bool {
	base := strings.TrimSuffix(query, "(check-sat)\n")
	if base == query {
		return false
	}
	cases := append([]string{}, o.Cases...)
	cases = append(cases, not(or(o.Cases...)))
	res := make([]string, len(cases))
	var wg sync.WaitGroup
	for i, c := range cases {
		i, c := i, c
		wg.Add(1)
		go func() {
			defer wg.Done()
			f := fmt.Sprintf("%s.case%d.smt2", strings.TrimSuffix(file, ".smt2"), i)
			os.WriteFile(f, []byte(base+"(assert "+c+")\n(check-sat)\n"), 0o644)
			for _, s := range solvers[:2] {
				r := runSolver(context.Background(), s, f, min(timeoutMs, 10000))
				if r.result == "unsat" || r.result == "sat" {
					res[i] = r.result
					break
				}
			}
			os.Remove(f)
		}()
	}
	wg.Wait()
	for _, r := range res {
		if r != "unsat" {
			return false
		}
	}
	return true
}
