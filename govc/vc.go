package main

// VC generation: symbolic execution of one go/ssa function into a set of
// SMT obligations (loop-cut, passive form).

import (
	"fmt"
	"go/constant"
	"go/token"
	"go/types"
	"math/big"
	"os"
	"sort"
	"strings"

	"golang.org/x/tools/go/ssa"
)

type TV struct {
	T       types.Type
	S       string
	Tup     []TV
	Untyped bool
}

type Fact struct {
	Seq  int
	Term string
	Kind string // def | assume | trusted
}

type Obl struct {
	Name   string
	Kind   string
	Anchor string
	Seq    int
	Guard  string
	Cond   string
	Pos    token.Position
	Props  []string
	Func   string
	Expect string // "" normal; "sat" for vacuity covers
	// filled by the solver stage
	Result  string // unsat | sat | unknown | timeout | error
	Solver  string
	TimeS   float64
	Model   string
	Query   string
	Results map[string]string
	// Cases: the conditions of the forward edges into the block the obligation sits in (their
	// disjunction is the block's reach condition); used to split an undecided query by incoming path
	Cases []string
}

type State struct {
	heap   map[string]string
	epoch  int
	nextId string
}

func (s *State) clone() *State {
	n := &State{heap: make(map[string]string, len(s.heap)), epoch: s.epoch, nextId: s.nextId}
	for k, v := range s.heap {
		n.heap[k] = v
	}
	return n
}

type VC struct {
	prog *Program
	fn   *ssa.Function
	fc   *FuncContract
	ar   Arith
	name string // display name pkg-relative

	decls    []string
	declared map[string]bool
	facts    []Fact
	obls     []*Obl
	seq      int
	fresh    int

	vals     map[ssa.Value]TV
	reach    map[int]string
	edge     map[[2]int]string
	exit     map[int]*State
	entrySt  *State
	entryEnv map[string]TV

	structDecl  []string
	structSeen  map[string]bool
	heapSort    map[string]string
	heapElem    map[string]types.Type
	strLits     map[string]string
	typeIDs     map[string]int
	specUsed    map[string]bool
	specDefs    []string
	unsupported []string
	assumptions map[string]bool
	anchors     map[string]int
	srcLines    map[string][]string

	loops     []*loopInfo
	loopOf    map[int]*loopInfo // header index -> loop
	rangeIter map[ssa.Value]*rangeState
	deferred  []*ssa.Defer
	cur       *ssa.BasicBlock
	curIdx    int
	curState  *State
	ghostTok  bool

	globalsRead map[*ssa.Global]bool
	inlineDepth int
	preOnly     bool // applyContract stops after the preconditions (go statements)
	goalSks     map[string]TV // skolem constants of the goal being translated (by variable name)
	goalBind    map[string]TV // given terms for quantified variables (instance hints)
	hintArgs   []TV
	lastResult  *TV // result of the call just executed (hints placed @after: a call)
	prevRes     *TV          // result of the call most recently executed on every path to this point (straight-line or single-predecessor chain)
	blockPrevRes map[int]*TV // prevRes at the end of each block
	oracle      bool // replay oracle: recursive spec functions are given as define-fun-rec (they must compute)
	callPreHit  map[int]int
	transferHit map[int]int
	tokParams   map[int]string
	fvConsts    map[string]string
	closureSpecsUsed map[string]bool
	varCells    map[types.Object]*ssa.Alloc
	callPost   map[ssa.Instruction]*State
	epochNext  map[int]string
	roms       map[string]string // global loc const -> ROM array const (immutable global arrays)
	romFacts   []string
	pkg        *types.Package
	specInfos  map[string]*specInfo
	lemmasUsed map[string]bool
}

type loopInfo struct {
	ord    int
	header *ssa.BasicBlock
	body   map[int]bool
	back   []*ssa.BasicBlock
	modAll bool
	mods   map[string]bool
	hdrSt  *State
	lc     *LoopContract
	decOld string
	auto   []autoInv
	tokAtHead string
	mapTargets []ssa.Value // maps updated in the loop through values defined outside it
	mapOther   bool        // some map is updated in another way (callee, map created in the loop)
}

type rangeState struct {
	mapTV   TV
	visited string // Array K Bool term (current)
	isStr   bool
}

func newVC(prog *Program, fn *ssa.Function, fc *FuncContract) *VC {
	mode := "int"
	if fc != nil {
		mode = fc.Mode
	}
	return newVCMode(prog, fn, fc, mode, funcRelName(fn), fn.Pkg.Pkg)
}

func newVCMode(prog *Program, fn *ssa.Function, fc *FuncContract, mode, name string, pkg *types.Package) *VC {
	return &VC{
		prog: prog, fn: fn, fc: fc, ar: Arith{BV: mode == "bv"}, name: name,
		declared: map[string]bool{}, vals: map[ssa.Value]TV{}, reach: map[int]string{}, edge: map[[2]int]string{},
		exit: map[int]*State{}, structSeen: map[string]bool{}, heapSort: map[string]string{}, heapElem: map[string]types.Type{},
		strLits: map[string]string{}, typeIDs: map[string]int{}, specUsed: map[string]bool{}, assumptions: map[string]bool{},
		anchors: map[string]int{}, srcLines: map[string][]string{}, loopOf: map[int]*loopInfo{}, rangeIter: map[ssa.Value]*rangeState{},
		roms: map[string]string{}, epochNext: map[int]string{}, callPost: map[ssa.Instruction]*State{}, callPreHit: map[int]int{}, transferHit: map[int]int{}, fvConsts: map[string]string{}, closureSpecsUsed: map[string]bool{}, varCells: map[types.Object]*ssa.Alloc{}, pkg: pkg, specInfos: map[string]*specInfo{}, lemmasUsed: map[string]bool{},
	}
}

func funcRelName(fn *ssa.Function) string {
	if fn.Parent() != nil {
		// closure: parentName$N
		return funcRelName(fn.Parent()) + fn.Name()[strings.LastIndex(fn.Name(), "$"):]
	}
	if recv := fn.Signature.Recv(); recv != nil {
		t := recv.Type()
		star := ""
		if p, ok := t.(*types.Pointer); ok {
			t = p.Elem()
			star = "*"
		}
		if n, ok := t.(*types.Named); ok {
			return "(" + star + n.Obj().Name() + ")." + fn.Name()
		}
	}
	return fn.Name()
}

func (vc *VC) unsupportedf(f string, a ...interface{}) {
	vc.unsupported = append(vc.unsupported, fmt.Sprintf(f, a...))
}

func (vc *VC) assumeNote(s string) { vc.assumptions[s] = true }

func (vc *VC) newName(prefix string) string {
	vc.fresh++
	return fmt.Sprintf("%s!%d", prefix, vc.fresh)
}

func (vc *VC) declare(name, sort string) string {
	if !vc.declared[name] {
		vc.declared[name] = true
		vc.decls = append(vc.decls, fmt.Sprintf("(declare-const %s %s)", name, sort))
	}
	return name
}

func (vc *VC) freshConst(prefix, sort string) string {
	return vc.declare(vc.newName(prefix), sort)
}

func (vc *VC) addFact(kind, term string) {
	if term == "true" {
		return
	}
	vc.seq++
	vc.facts = append(vc.facts, Fact{Seq: vc.seq, Term: term, Kind: kind})
}

func (vc *VC) assume(guard, term string) { vc.addFact("assume", imp(guard, term)) }

// define introduces a constant equal to term (keeps terms small).
func (vc *VC) define(prefix, sort, term string) string {
	// avoid trivial re-definitions of atoms
	if !strings.HasPrefix(term, "(") {
		return term
	}
	n := vc.freshConst(prefix, sort)
	vc.addFact("def", sx("=", n, term))
	return n
}

func (vc *VC) guard() string {
	if vc.cur == nil {
		return "true"
	}
	return vc.reach[vc.cur.Index]
}

func (vc *VC) srcLine(pos token.Position) string {
	if !pos.IsValid() {
		return ""
	}
	ls, ok := vc.srcLines[pos.Filename]
	if !ok {
		data, err := os.ReadFile(pos.Filename)
		if err == nil {
			ls = strings.Split(string(data), "\n")
		}
		vc.srcLines[pos.Filename] = ls
	}
	if pos.Line-1 < len(ls) && pos.Line >= 1 {
		return strings.TrimSpace(ls[pos.Line-1])
	}
	return ""
}

func (vc *VC) oblige(kind, anchor, cond string, pos token.Pos) *Obl {
	return vc.obligeG(kind, anchor, vc.guard(), cond, pos)
}

func (vc *VC) obligeG(kind, anchor, guard, cond string, pos token.Pos) *Obl {
	p := vc.prog.fset.Position(pos)
	if anchor == "" {
		anchor = vc.srcLine(p)
		if len(anchor) > 70 {
			anchor = anchor[:70]
		}
	}
	base := fmt.Sprintf("%s/%s/%s", vc.name, kind, anchor)
	vc.anchors[base]++
	name := base
	if n := vc.anchors[base]; n > 1 {
		name = fmt.Sprintf("%s#%d", base, n)
	}
	vc.seq++
	o := &Obl{Name: name, Kind: kind, Anchor: anchor, Seq: vc.seq, Guard: guard, Cond: cond, Pos: p, Func: vc.name}
	if cond == "true" || guard == "false" {
		// trivially discharged; still recorded
		o.Result, o.Solver = "unsat", "trivial"
	}
	if vc.cur != nil && o.Result == "" && kind != "cover" {
		if _, isHdr := vc.loopOf[vc.cur.Index]; !isHdr {
			for _, p := range vc.cur.Preds {
				if !vc.isBackEdge(p, vc.cur) {
					if c := vc.edgeCond(p, vc.cur); c != "false" {
						o.Cases = append(o.Cases, c)
					}
				}
			}
		}
	}
	vc.obls = append(vc.obls, o)
	return o
}

// ---------------------------------------------------------------------------
// sorts

func (vc *VC) sortOf(t types.Type) string {
	switch u := t.Underlying().(type) {
	case *types.Basic:
		if ii, ok := basicInt(u); ok {
			return vc.ar.intSort(ii)
		}
		switch {
		case u.Info()&types.IsBoolean != 0:
			return "Bool"
		case u.Info()&types.IsString != 0:
			return "Str"
		case u.Kind() == types.UnsafePointer:
			return "Loc"
		case u.Info()&types.IsFloat != 0:
			return "Real"
		case u.Kind() == types.UntypedNil:
			return "Loc"
		}
	case *types.Pointer, *types.Map, *types.Chan, *types.Signature:
		return "Loc"
	case *types.Slice:
		return "Slice"
	case *types.Interface:
		return "Iface"
	case *types.Struct:
		return vc.structSort(t)
	case *types.Array:
		return fmt.Sprintf("(Array IX %s)", vc.sortOf(u.Elem()))
	case *types.Tuple:
		return "Bool" // placeholder, tuples handled structurally
	}
	if g, ok := t.(*GhostType); ok {
		return g.Sort
	}
	vc.unsupportedf("sort of %s", t)
	return "Int"
}

// GhostType: spec-only types (sets, maps, sequences).
type GhostType struct {
	Sort string
	Key  types.Type
	Val  types.Type
}

func (g *GhostType) Underlying() types.Type { return g }
func (g *GhostType) String() string         { return "ghost" + g.Sort }

func structKey(t types.Type) string {
	if n, ok := t.(*types.Named); ok {
		return types.TypeString(n, nil)
	}
	if p, ok := t.(*types.Alias); ok {
		return structKey(types.Unalias(p))
	}
	return types.TypeString(t, nil)
}

func (vc *VC) structSort(t types.Type) string {
	key := structKey(t)
	name := "S_" + mangle(key)
	if vc.structSeen[key] {
		return name
	}
	vc.structSeen[key] = true
	st := t.Underlying().(*types.Struct)
	var fs []string
	for i := 0; i < st.NumFields(); i++ {
		fs = append(fs, fmt.Sprintf("(%s_f%d %s)", name, i, vc.sortOf(st.Field(i).Type())))
	}
	vc.structDecl = append(vc.structDecl, fmt.Sprintf("(declare-datatypes ((%s 0)) (((mk_%s %s))))", name, name, strings.Join(fs, " ")))
	return name
}

func (vc *VC) structField(t types.Type, s string, i int) string {
	name := vc.structSort(t)
	return sx(fmt.Sprintf("%s_f%d", name, i), s)
}

func (vc *VC) typeID(t types.Type) int {
	k := types.TypeString(t, nil)
	if id, ok := vc.typeIDs[k]; ok {
		return id
	}
	id := len(vc.typeIDs) + 1
	vc.typeIDs[k] = id
	return id
}

func (vc *VC) strLit(s string) string {
	if n, ok := vc.strLits[s]; ok {
		return n
	}
	n := fmt.Sprintf("strlit_%d", len(vc.strLits))
	vc.strLits[s] = n
	vc.declare(n, "Str")
	return n
}

func (vc *VC) zero(t types.Type) string {
	switch u := t.Underlying().(type) {
	case *types.Basic:
		if ii, ok := basicInt(u); ok {
			return vc.ar.numi(ii, 0)
		}
		switch {
		case u.Info()&types.IsBoolean != 0:
			return "false"
		case u.Info()&types.IsString != 0:
			return vc.strLit("")
		case u.Info()&types.IsFloat != 0:
			return "0.0"
		}
		return "lnil"
	case *types.Pointer, *types.Map, *types.Chan, *types.Signature:
		return "lnil"
	case *types.Slice:
		return vc.nilSlice()
	case *types.Interface:
		return "(mkiface 0 lnil)"
	case *types.Struct:
		name := vc.structSort(t)
		if u.NumFields() == 0 {
			return "mk_" + name
		}
		var fs []string
		for i := 0; i < u.NumFields(); i++ {
			fs = append(fs, vc.zero(u.Field(i).Type()))
		}
		return sx("mk_"+name, fs...)
	case *types.Array:
		return fmt.Sprintf("((as const (Array IX %s)) %s)", vc.sortOf(u.Elem()), vc.zero(u.Elem()))
	}
	return "0"
}

func (vc *VC) nilSlice() string {
	z := vc.ar.ix(0)
	return sx("mkslice", "lnil", z, z, z)
}

// typeInv: what is known about any well-typed Go value of type t.
func (vc *VC) typeInv(t types.Type, s string, st *State) string {
	switch u := t.Underlying().(type) {
	case *types.Basic:
		if ii, ok := basicInt(u); ok {
			return vc.ar.inRange(ii, s)
		}
		if u.Info()&types.IsString != 0 {
			// strings, like slices, are shorter than 2^56 bytes
			return and(vc.ar.le(ixInfo, vc.ar.ix(0), sx("slen_", s)), vc.ar.le(ixInfo, sx("slen_", s), vc.ar.ix(1<<56)))
		}
		if u.Kind() == types.UnsafePointer {
			return "true"
		}
		return "true"
	case *types.Pointer, *types.Map, *types.Chan, *types.Signature:
		return sx("<", sx("rt", s), st.nextId)
	case *types.Interface:
		return and(sx("<", sx("rt", sx("iptr", s)), st.nextId), sx("<=", "0", sx("ityp", s)),
			imp(sx("=", sx("ityp", s), "0"), sx("=", sx("iptr", s), "lnil")))
	case *types.Slice:
		z := vc.ar.ix(0)
		le := func(a, b string) string { return vc.ar.le(ixInfo, a, b) }
		maxs := vc.ar.num(ixInfo, ixInfo.max())
		// no slice has 2^56 or more elements (64-bit address spaces are at most 2^57 bytes)
		big := vc.ar.num(ixInfo, pow2(56))
		c := and(le(z, sx("soff", s)), le(z, sx("slen", s)), le(sx("slen", s), sx("scap", s)), le(sx("scap", s), big), le(sx("soff", s), big),
			sx("<", sx("rt", sx("sbase", s)), st.nextId),
			imp(sx("=", sx("sbase", s), "lnil"), sx("=", sx("scap", s), z)))
		if vc.ar.BV {
			// no overflow of off+cap
			c = and(c, le(sx("soff", s), sx("bvsub", maxs, sx("scap", s))))
		} else {
			c = and(c, le(sx("+", sx("soff", s), sx("scap", s)), maxs))
		}
		return c
	case *types.Struct:
		var cs []string
		for i := 0; i < u.NumFields(); i++ {
			cs = append(cs, vc.typeInv(u.Field(i).Type(), vc.structField(t, s, i), st))
		}
		return and(cs...)
	}
	return "true"
}

// ---------------------------------------------------------------------------
// heaps

func (vc *VC) heapKeySort(key string, elem types.Type) string {
	if s, ok := vc.heapSort[key]; ok {
		return s
	}
	s := fmt.Sprintf("(Array Loc %s)", vc.sortOf(elem))
	vc.heapSort[key] = s
	vc.heapElem[key] = elem
	return s
}

func (vc *VC) heapGet(st *State, key string, elem types.Type) string {
	if h, ok := st.heap[key]; ok {
		return h
	}
	sort := vc.heapKeySort(key, elem)
	n := fmt.Sprintf("H_%s_e%d", mangle(key), st.epoch)
	if !vc.declared[n] {
		vc.declare(n, sort)
		nid := vc.epochNext[st.epoch]
		if nid == "" {
			nid = "nextId0"
		}
		vc.closureFact(n, key, nid, 0)
	}
	return n
}

// closureFact: every pointer-like value stored in heap version h refers to
// memory allocated before nextId (Go values never point to unallocated memory).
func (vc *VC) closureFact(h, key, nextId string, seq int) {
	elem := vc.heapElem[key]
	if elem == nil {
		return
	}
	if g, ghost := elem.(*GhostType); ghost {
		// values stored in Go maps: references held by an allocated map point to allocated objects
		if strings.HasPrefix(key, "#map.val<") && g.Val != nil {
			switch g.Val.Underlying().(type) {
			case *types.Pointer, *types.Map, *types.Chan, *types.Signature, *types.Slice, *types.Interface:
				tmp := &State{nextId: nextId}
				inv := vc.typeInv(g.Val, sx("select", sx("select", h, "l!c"), "k!c"), tmp)
				term := fmt.Sprintf("(forall ((l!c Loc) (k!c %s)) (! (=> (< (rt l!c) %s) %s) :pattern ((select (select %s l!c) k!c))))", vc.sortOf(g.Key), nextId, inv, h)
				if seq == 0 {
					vc.facts = append(vc.facts, Fact{Seq: 0, Term: term, Kind: "assume"})
				} else {
					vc.addFact("assume", term)
				}
			}
		}
		return
	}
	switch elem.Underlying().(type) {
	case *types.Pointer, *types.Map, *types.Chan, *types.Signature, *types.Slice, *types.Interface:
	default:
		return
	}
	tmp := &State{nextId: nextId}
	inv := vc.typeInv(elem, sx("select", h, "l!c"), tmp)
	// only allocated locations: the contents of not-yet-allocated memory are unconstrained
	// (they are revealed when a callee allocates and initialises an object)
	term := fmt.Sprintf("(forall ((l!c Loc)) (! (=> (< (rt l!c) %s) %s) :pattern ((select %s l!c))))", nextId, inv, h)
	if seq == 0 {
		vc.facts = append(vc.facts, Fact{Seq: 0, Term: term, Kind: "assume"})
	} else {
		vc.addFact("assume", term)
	}
}

func (vc *VC) heapSetTerm(st *State, key string, elem types.Type, term string) {
	sort := vc.heapKeySort(key, elem)
	st.heap[key] = vc.define("H_"+mangle(key), sort, term)
}

func (vc *VC) heapRead(st *State, key string, elem types.Type, idx string) string {
	return sx("select", vc.heapGet(st, key, elem), idx)
}

func (vc *VC) heapWrite(st *State, key string, elem types.Type, idx, val string) {
	old := vc.heapGet(st, key, elem)
	vc.heapSetTerm(st, key, elem, sx("store", old, idx, val))
	if vc.forwardFrames() && vc.heapSort[key] != "" && strings.HasPrefix(vc.heapSort[key], "(Array Loc ") && !strings.HasPrefix(key, "#") {
		// forward propagation of element terms across heap versions (for witnesses of existentials)
		nw := st.heap[key]
		vc.addFact("assume", fmt.Sprintf("(forall ((l!w Loc)) (! (=> (not (= l!w %s)) (= (select %s l!w) (select %s l!w))) :pattern ((select %s l!w))))", idx, nw, old, old))
	}
}

// forwardFrames: frame facts are also triggered by reads of the older heap version.
func (vc *VC) forwardFrames() bool {
	return vc.fc != nil && vc.fc.Flags["forward-frames"]
}

func (vc *VC) havocAll(st *State) {
	keep := map[string]string{}
	defer func(e int) {}(st.epoch)
	for k, v := range st.heap {
		if k == tokKey || k == freshKey || strings.HasPrefix(k, "#fifo.") || k == "#held" || k == "#waited" || k == "#polled" || k == "#fnid" {
			keep[k] = v
		}
		if strings.HasPrefix(k, "#ghost.") {
			if g, ok := vc.prog.cs.Ghosts[k[len("#ghost."):]]; ok && g.Owned {
				keep[k] = v
			}
		}
	}
	// bookkeeping ghosts of the activation itself survive even if they were only registered so far
	for _, k := range []string{"#waited", "#polled", "#held", "#fnid"} {
		if _, ok := keep[k]; !ok && vc.heapElem[k] != nil {
			keep[k] = vc.heapGet(st, k, vc.heapElem[k])
		}
	}
	for k, elem := range vc.heapElem {
		if _, ok := keep[k]; !ok && strings.HasPrefix(k, "#fifo.") {
			keep[k] = vc.heapGet(st, k, elem)
		}
	}
	// fields written only while their object is constructed: a callee can only initialise objects it
	// allocates itself (locations that did not exist before), so the heap of such a field is unchanged
	// on every location that exists now
	for k, elem := range vc.heapElem {
		if _, ok := keep[k]; ok || strings.HasPrefix(k, "#") || strings.HasPrefix(k, "[]") || strings.HasPrefix(k, "@") {
			continue
		}
		if vc.prog.fieldImmutable(k) {
			keep[k] = vc.heapGet(st, k, elem)
		}
	}
	// owned ghosts never read so far keep their entry version
	for name, g := range vc.prog.cs.Ghosts {
		k := "#ghost." + name
		if _, ok := keep[k]; !ok && g.Owned {
			if vc.heapElem[k] == nil {
				// not mentioned yet in this function: register it so that a later mention reads the
				// version that survived this havoc (only ghosts of the function's own package: the
				// others cannot be named by its contracts)
				if g.Pkg != vc.pkg.Path() {
					continue
				}
				vc.heapKeySort(k, vc.parseType(g.Type, vc.pkg))
			}
			keep[k] = vc.heapGet(st, k, vc.heapElem[k])
		}
	}
	vc.fresh++
	st.epoch = vc.fresh
	st.heap = keep
	old := st.nextId
	st.nextId = vc.freshConst("nextId", "Int")
	vc.epochNext[st.epoch] = st.nextId
	vc.addFact("assume", sx("<=", old, st.nextId))
}

func (vc *VC) havocKey(st *State, key string) {
	elem := vc.heapElem[key]
	if elem == nil {
		// unknown key yet: drop knowledge by removing; next get will create epoch-version, so force fresh
		delete(st.heap, key)
		return
	}
	h := vc.freshConst("H_"+mangle(key), vc.heapSort[key])
	st.heap[key] = h
	vc.closureFact(h, key, st.nextId, 1)
}

func fieldKey(structT types.Type, i int) string {
	st := structT.Underlying().(*types.Struct)
	return structKey(structT) + "." + st.Field(i).Name()
}

func isStruct(t types.Type) bool {
	_, ok := t.Underlying().(*types.Struct)
	return ok
}

func isArray(t types.Type) bool {
	_, ok := t.Underlying().(*types.Array)
	return ok
}

// loadAt reads a value of type t stored at location loc. For primitive t the
// caller supplies the heap key/index (prim==true).
func (vc *VC) loadStruct(st *State, loc string, t types.Type) string {
	u := t.Underlying().(*types.Struct)
	name := vc.structSort(t)
	if u.NumFields() == 0 {
		return "mk_" + name
	}
	var fs []string
	for i := 0; i < u.NumFields(); i++ {
		ft := u.Field(i).Type()
		switch {
		case isStruct(ft):
			fs = append(fs, vc.loadStruct(st, sx("lfld", loc, fmt.Sprint(i)), ft))
		case isArray(ft):
			fs = append(fs, vc.loadArray(st, sx("lfld", loc, fmt.Sprint(i)), ft))
		default:
			fs = append(fs, vc.heapRead(st, fieldKey(t, i), ft, loc))
		}
	}
	return sx("mk_"+name, fs...)
}

func (vc *VC) loadArray(st *State, loc string, t types.Type) string {
	a := t.Underlying().(*types.Array)
	// whole-array value: an SMT array constrained pointwise
	n := vc.freshConst("arrval", vc.sortOf(t))
	if !isStruct(a.Elem()) && !isArray(a.Elem()) {
		k := "k!a"
		vc.assume(vc.guard(), fmt.Sprintf("(forall ((%s IX)) (! (= (select %s %s) %s) :pattern ((select %s %s))))", k, n, k,
			vc.heapRead(st, elemKey(a.Elem()), a.Elem(), sx("lelem", loc, k)), n, k))
	} else {
		vc.unsupportedf("load of array of aggregates %s", t)
	}
	return n
}

func (vc *VC) storeStruct(st *State, loc string, t types.Type, val string) {
	u := t.Underlying().(*types.Struct)
	for i := 0; i < u.NumFields(); i++ {
		ft := u.Field(i).Type()
		fv := vc.structField(t, val, i)
		switch {
		case isStruct(ft):
			vc.storeStruct(st, sx("lfld", loc, fmt.Sprint(i)), ft, fv)
		case isArray(ft):
			vc.unsupportedf("store of struct containing array %s", t)
		default:
			vc.heapWrite(st, fieldKey(t, i), ft, loc, fv)
		}
	}
}

func canonType(t types.Type) string {
	if b, ok := t.Underlying().(*types.Basic); ok {
		switch b.Kind() {
		case types.Uint8:
			return "uint8"
		case types.Int32:
			return "int32"
		}
		return b.Name()
	}
	if _, ok := t.Underlying().(*types.Struct); ok {
		return structKey(t)
	}
	switch u := t.Underlying().(type) {
	case *types.Pointer:
		return "*" + canonType(u.Elem())
	case *types.Slice:
		return "[]" + canonType(u.Elem())
	}
	return types.TypeString(t.Underlying(), nil)
}
func elemKey(elem types.Type) string { return "[]" + canonType(elem) }
func cellKey(elem types.Type) string { return "@" + canonType(elem) }

// addrOf classifies an address value: heap key + index for primitive pointees.
func (vc *VC) primAddr(addr ssa.Value, elem types.Type) (key, idx string) {
	switch a := addr.(type) {
	case *ssa.FieldAddr:
		pt := a.X.Type().Underlying().(*types.Pointer).Elem()
		return fieldKey(pt, a.Field), vc.val(a.X).S
	case *ssa.IndexAddr:
		return elemKey(elem), vc.val(a).S
	}
	return cellKey(elem), vc.val(addr).S
}

// romLoad: load through &global[i] of an immutable global array.
func (vc *VC) romLoad(addr ssa.Value) (string, bool) {
	ia, ok := addr.(*ssa.IndexAddr)
	if !ok {
		return "", false
	}
	g, ok := ia.X.(*ssa.Global)
	if !ok {
		return "", false
	}
	rom, ok := vc.roms[vc.globalLoc(g)]
	if !ok {
		return "", false
	}
	return sx(rom, vc.toIX(vc.val(ia.Index))), true
}

func (vc *VC) load(st *State, addr ssa.Value, t types.Type) string {
	if isStruct(t) {
		return vc.loadStruct(st, vc.val(addr).S, t)
	}
	if isArray(t) {
		return vc.loadArray(st, vc.val(addr).S, t)
	}
	if r, ok := vc.romLoad(addr); ok {
		return r
	}
	key, idx := vc.primAddr(addr, t)
	return vc.heapRead(st, key, t, idx)
}

func (vc *VC) store(st *State, addr ssa.Value, t types.Type, val string) {
	if isStruct(t) {
		vc.storeStruct(st, vc.val(addr).S, t, val)
		return
	}
	if isArray(t) {
		vc.unsupportedf("store of array value")
		return
	}
	key, idx := vc.primAddr(addr, t)
	vc.heapWrite(st, key, t, idx, val)
}

// zeroInit assumes the freshly allocated object at loc holds zero values.
func (vc *VC) zeroInit(st *State, loc string, t types.Type, prim bool) {
	switch u := t.Underlying().(type) {
	case *types.Struct:
		for i := 0; i < u.NumFields(); i++ {
			ft := u.Field(i).Type()
			if isStruct(ft) || isArray(ft) {
				vc.zeroInit(st, sx("lfld", loc, fmt.Sprint(i)), ft, false)
			} else {
				vc.assume(vc.guard(), eq(vc.heapRead(st, fieldKey(t, i), ft, loc), vc.zero(ft)))
			}
		}
	case *types.Array:
		vc.zeroInitElems(st, loc, u.Elem())
	default:
		if prim {
			vc.assume(vc.guard(), eq(vc.heapRead(st, cellKey(t), t, loc), vc.zero(t)))
		}
	}
}

func (vc *VC) zeroInitElems(st *State, base string, elem types.Type) {
	k := "k!z"
	l := sx("lelem", base, k)
	switch u := elem.Underlying().(type) {
	case *types.Struct:
		for i := 0; i < u.NumFields(); i++ {
			ft := u.Field(i).Type()
			if isStruct(ft) || isArray(ft) {
				continue // nested aggregates inside slice elements: left unconstrained
			}
			r := vc.heapRead(st, fieldKey(elem, i), ft, l)
			vc.assume(vc.guard(), fmt.Sprintf("(forall ((%s IX)) (! (= %s %s) :pattern (%s)))", k, r, vc.zero(ft), r))
		}
	case *types.Array:
	default:
		r := vc.heapRead(st, elemKey(elem), elem, l)
		vc.assume(vc.guard(), fmt.Sprintf("(forall ((%s IX)) (! (= %s %s) :pattern (%s)))", k, r, vc.zero(elem), r))
	}
}

func (vc *VC) alloc(st *State) string {
	id := st.nextId
	st.nextId = vc.define("nextId", "Int", sx("+", id, "1"))
	return sx("lroot", id)
}

// ---------------------------------------------------------------------------
// values

func (vc *VC) val(v ssa.Value) TV {
	if tv, ok := vc.vals[v]; ok {
		return tv
	}
	switch x := v.(type) {
	case *ssa.Const:
		return vc.constTV(x)
	case *ssa.Global:
		return TV{T: x.Type(), S: vc.globalLoc(x)}
	case *ssa.Function:
		return TV{T: x.Type(), S: vc.funcLoc(x)}
	case *ssa.Builtin:
		return TV{T: x.Type(), S: "lnil"}
	case *ssa.FreeVar:
		n := vc.declare("fv_"+mangle(x.Name()), vc.sortOf(x.Type()))
		tv := TV{T: x.Type(), S: n}
		vc.vals[v] = tv
		vc.addFact("assume", vc.typeInv(x.Type(), n, vc.entrySt))
		return tv
	}
	vc.unsupportedf("value %T %s used before definition", v, v.Name())
	n := vc.freshConst("undef", vc.sortOf(v.Type()))
	tv := TV{T: v.Type(), S: n}
	vc.vals[v] = tv
	return tv
}

func (vc *VC) globalLoc(g *ssa.Global) string {
	n := "g_" + mangle(g.Pkg.Pkg.Path()+"."+g.Name())
	if !vc.declared[n] {
		vc.declare(n, "Loc")
		// globals live at negative root ids, pairwise distinct by name hash order
		id := vc.prog.globalID(g)
		vc.facts = append(vc.facts, Fact{Seq: 0, Term: sx("=", n, sx("lroot", fmt.Sprintf("(- %d)", id))), Kind: "def"})
		// immutable array with constant initialiser: contents as a ROM
		if at, ok := g.Type().Underlying().(*types.Pointer).Elem().Underlying().(*types.Array); ok {
			if vals, ok := vc.prog.immutableArrayInit(g); ok {
				if ii, isInt := basicInt(at.Elem()); isInt {
					rom := "ROM_" + mangle(g.Name())
					vc.roms[n] = rom
					body := vc.ar.num(ii, big.NewInt(0))
					for i := len(vals) - 1; i >= 0; i-- {
						body = sx("ite", sx("=", "i", vc.ar.ix(int64(i))), vc.ar.num(ii, vals[i]), body)
					}
					vc.romFacts = append(vc.romFacts, fmt.Sprintf("(define-fun %s ((i IX)) %s %s)", rom, vc.sortOf(at.Elem()), body))
					vc.assumeNote(fmt.Sprintf("global %s is never written after initialisation (checked by a whole-module scan of stores on every run)", g.Name()))
				}
			}
		}
	}
	return n
}

func (vc *VC) funcLoc(f *ssa.Function) string {
	n := "fn_" + mangle(f.String())
	if !vc.declared[n] {
		vc.declare(n, "Loc")
		id := vc.prog.funcID(f)
		vc.facts = append(vc.facts, Fact{Seq: 0, Term: sx("=", n, sx("lroot", fmt.Sprintf("(- %d)", id))), Kind: "def"})
	}
	return n
}

func (vc *VC) constTV(c *ssa.Const) TV {
	t := c.Type()
	if c.Value == nil {
		return TV{T: t, S: vc.zero(t)}
	}
	switch u := t.Underlying().(type) {
	case *types.Basic:
		if ii, ok := basicInt(u); ok {
			v, _ := new(big.Int).SetString(constant.ToInt(c.Value).ExactString(), 10)
			if v == nil {
				v = big.NewInt(0)
			}
			return TV{T: t, S: vc.ar.num(ii, v)}
		}
		switch {
		case u.Info()&types.IsBoolean != 0:
			return TV{T: t, S: fmt.Sprint(constant.BoolVal(c.Value))}
		case u.Info()&types.IsString != 0:
			return TV{T: t, S: vc.strLit(constant.StringVal(c.Value))}
		case u.Info()&types.IsFloat != 0:
			f, _ := constant.Float64Val(c.Value)
			return TV{T: t, S: fmt.Sprintf("%f", f)}
		}
	}
	vc.unsupportedf("constant of type %s", t)
	return TV{T: t, S: vc.zero(t)}
}

func (vc *VC) setVal(v ssa.Value, s string) TV {
	tv := TV{T: v.Type(), S: s}
	vc.vals[v] = tv
	return tv
}

// defVal binds v to a fresh constant defined as term.
func (vc *VC) defVal(v ssa.Value, term string) TV {
	name := "v_" + mangle(v.Name())
	if vc.declared[name] {
		name = vc.newName(name)
	}
	vc.declare(name, vc.sortOf(v.Type()))
	vc.addFact("def", sx("=", name, term))
	return vc.setVal(v, name)
}

func (vc *VC) havocVal(v ssa.Value, st *State) TV {
	name := "v_" + mangle(v.Name())
	if vc.declared[name] {
		name = vc.newName(name)
	}
	if tup, ok := v.Type().(*types.Tuple); ok {
		tv := TV{T: v.Type()}
		for i := 0; i < tup.Len(); i++ {
			n := vc.declare(fmt.Sprintf("%s_%d", name, i), vc.sortOf(tup.At(i).Type()))
			vc.assume(vc.guard(), vc.typeInv(tup.At(i).Type(), n, st))
			tv.Tup = append(tv.Tup, TV{T: tup.At(i).Type(), S: n})
		}
		vc.vals[v] = tv
		return tv
	}
	vc.declare(name, vc.sortOf(v.Type()))
	vc.assume(vc.guard(), vc.typeInv(v.Type(), name, st))
	return vc.setVal(v, name)
}

// ---------------------------------------------------------------------------
// CFG

func (vc *VC) findLoops() {
	fn := vc.fn
	headers := map[int]*loopInfo{}
	for _, b := range fn.Blocks {
		for _, s := range b.Succs {
			if s.Dominates(b) {
				li := headers[s.Index]
				if li == nil {
					li = &loopInfo{header: s, body: map[int]bool{s.Index: true}, mods: map[string]bool{}}
					headers[s.Index] = li
				}
				li.back = append(li.back, b)
				// natural loop: nodes reaching b without passing s
				stack := []*ssa.BasicBlock{b}
				for len(stack) > 0 {
					n := stack[len(stack)-1]
					stack = stack[:len(stack)-1]
					if li.body[n.Index] {
						continue
					}
					li.body[n.Index] = true
					stack = append(stack, n.Preds...)
				}
			}
		}
	}
	var idx []int
	for i := range headers {
		idx = append(idx, i)
	}
	// order loops by the source position of the header's controlling statement
	sort.Slice(idx, func(a, b int) bool {
		pa, pb := vc.loopPos(headers[idx[a]]), vc.loopPos(headers[idx[b]])
		if pa != pb {
			return pa < pb
		}
		return idx[a] < idx[b]
	})
	for ord, i := range idx {
		li := headers[i]
		li.ord = ord
		if vc.fc != nil {
			li.lc = vc.fc.Loops[ord]
		}
		vc.loops = append(vc.loops, li)
		vc.loopOf[i] = li
	}
}

func (vc *VC) loopPos(li *loopInfo) token.Pos {
	best := token.Pos(0)
	for bi := range li.body {
		for _, ins := range vc.fn.Blocks[bi].Instrs {
			if p := ins.Pos(); p.IsValid() && (best == 0 || p < best) {
				best = p
			}
		}
	}
	return best
}

func (vc *VC) rpo() []*ssa.BasicBlock {
	seen := map[int]bool{}
	var post []*ssa.BasicBlock
	var dfs func(b *ssa.BasicBlock)
	// successors that lead back to the block (loop bodies) are placed before the loop exits in the
	// order of execution, so that the obligations of a loop do not carry the facts of the code after it
	reaches := func(from, to *ssa.BasicBlock) bool {
		vis := map[int]bool{}
		stack := []*ssa.BasicBlock{from}
		for len(stack) > 0 {
			n := stack[len(stack)-1]
			stack = stack[:len(stack)-1]
			if n == to {
				return true
			}
			if vis[n.Index] {
				continue
			}
			vis[n.Index] = true
			stack = append(stack, n.Succs...)
		}
		return false
	}
	dfs = func(b *ssa.BasicBlock) {
		seen[b.Index] = true
		var exits, inner []*ssa.BasicBlock
		for _, s := range b.Succs {
			if s.Dominates(b) { // back edge
				continue
			}
			if reaches(s, b) {
				inner = append(inner, s)
			} else {
				exits = append(exits, s)
			}
		}
		for _, s := range append(exits, inner...) {
			if !seen[s.Index] {
				dfs(s)
			}
		}
		post = append(post, b)
	}
	dfs(vc.fn.Blocks[0])
	for i, j := 0, len(post)-1; i < j; i, j = i+1, j-1 {
		post[i], post[j] = post[j], post[i]
	}
	return post
}
