package main

// SMT-LIB helpers: sorts for Go types, integer arithmetic in two modes
// (mathematical Int with explicit wrap-around, or fixed-width bit-vectors),
// prelude.

import (
	"fmt"
	"go/types"
	"math/big"
	"regexp"
	"sort"
	"strings"
)

var reMangle = regexp.MustCompile(`[^A-Za-z0-9_]`)

func mangle(s string) string {
	s = strings.ReplaceAll(s, "github.com/samaritan-proxy/samaritan/", "")
	s = strings.ReplaceAll(s, "*", "P")
	s = strings.ReplaceAll(s, "[]", "Sl")
	return reMangle.ReplaceAllString(s, "_")
}

func sx(op string, args ...string) string {
	return "(" + op + " " + strings.Join(args, " ") + ")"
}

func and(args ...string) string {
	var a []string
	for _, x := range args {
		if x == "true" || x == "" {
			continue
		}
		if x == "false" {
			return "false"
		}
		a = append(a, x)
	}
	switch len(a) {
	case 0:
		return "true"
	case 1:
		return a[0]
	}
	return sx("and", a...)
}

func or(args ...string) string {
	var a []string
	for _, x := range args {
		if x == "false" || x == "" {
			continue
		}
		if x == "true" {
			return "true"
		}
		a = append(a, x)
	}
	switch len(a) {
	case 0:
		return "false"
	case 1:
		return a[0]
	}
	return sx("or", a...)
}

func not(x string) string {
	switch x {
	case "true":
		return "false"
	case "false":
		return "true"
	}
	if strings.HasPrefix(x, "(not ") {
		return x[5 : len(x)-1]
	}
	return sx("not", x)
}

func imp(a, b string) string {
	if a == "true" {
		return b
	}
	if b == "true" || a == "false" {
		return "true"
	}
	return sx("=>", a, b)
}

func ite(c, a, b string) string {
	if c == "true" {
		return a
	}
	if c == "false" {
		return b
	}
	if a == b {
		return a
	}
	return sx("ite", c, a, b)
}

func eq(a, b string) string {
	if a == b {
		return "true"
	}
	return sx("=", a, b)
}

// ---------------------------------------------------------------------------
// integer typing

type intInfo struct {
	bits   int
	signed bool
}

func basicInt(t types.Type) (intInfo, bool) {
	b, ok := t.Underlying().(*types.Basic)
	if !ok {
		return intInfo{}, false
	}
	switch b.Kind() {
	case types.Int, types.Int64:
		return intInfo{64, true}, true
	case types.Int32:
		return intInfo{32, true}, true
	case types.Int16:
		return intInfo{16, true}, true
	case types.Int8:
		return intInfo{8, true}, true
	case types.Uint, types.Uint64, types.Uintptr:
		return intInfo{64, false}, true
	case types.Uint32:
		return intInfo{32, false}, true
	case types.Uint16:
		return intInfo{16, false}, true
	case types.Uint8:
		return intInfo{8, false}, true
	case types.UntypedInt, types.UntypedRune:
		return intInfo{64, true}, true
	}
	return intInfo{}, false
}

func (ii intInfo) min() *big.Int {
	if !ii.signed {
		return big.NewInt(0)
	}
	m := new(big.Int).Lsh(big.NewInt(1), uint(ii.bits-1))
	return m.Neg(m)
}

func (ii intInfo) max() *big.Int {
	n := ii.bits
	if ii.signed {
		n--
	}
	m := new(big.Int).Lsh(big.NewInt(1), uint(n))
	return m.Sub(m, big.NewInt(1))
}

func pow2(n int) *big.Int { return new(big.Int).Lsh(big.NewInt(1), uint(n)) }

// Arith encapsulates the arithmetic mode.
type Arith struct {
	BV bool
}

func (a Arith) IX() string {
	if a.BV {
		return "(_ BitVec 64)"
	}
	return "Int"
}

func (a Arith) intSort(ii intInfo) string {
	if a.BV {
		return fmt.Sprintf("(_ BitVec %d)", ii.bits)
	}
	return "Int"
}

func (a Arith) num(ii intInfo, v *big.Int) string {
	if a.BV {
		m := new(big.Int).Mod(v, pow2(ii.bits))
		return fmt.Sprintf("(_ bv%s %d)", m.String(), ii.bits)
	}
	if v.Sign() < 0 {
		return "(- " + new(big.Int).Neg(v).String() + ")"
	}
	return v.String()
}

func (a Arith) numi(ii intInfo, v int64) string { return a.num(ii, big.NewInt(v)) }

var ixInfo = intInfo{64, true}

func (a Arith) ix(v int64) string { return a.numi(ixInfo, v) }

// inRange: constraint that a value of the given Go int type satisfies (int mode only).
func (a Arith) inRange(ii intInfo, x string) string {
	if a.BV {
		return "true"
	}
	return and(sx("<=", a.num(ii, ii.min()), x), sx("<=", x, a.num(ii, ii.max())))
}

// wrap: reduce a mathematical value into the range of the type (int mode).
func (a Arith) wrap(ii intInfo, x string) string {
	if a.BV {
		return x
	}
	m := pow2(ii.bits).String()
	if !ii.signed {
		return sx("mod", x, m)
	}
	h := pow2(ii.bits - 1).String()
	return ite(a.inRange(ii, x), x, sx("-", sx("mod", sx("+", x, h), m), h))
}

func (a Arith) lt(ii intInfo, x, y string) string {
	if a.BV {
		if ii.signed {
			return sx("bvslt", x, y)
		}
		return sx("bvult", x, y)
	}
	return sx("<", x, y)
}
func (a Arith) le(ii intInfo, x, y string) string {
	if a.BV {
		if ii.signed {
			return sx("bvsle", x, y)
		}
		return sx("bvule", x, y)
	}
	return sx("<=", x, y)
}

func (a Arith) add(ii intInfo, x, y string) string {
	if a.BV {
		return sx("bvadd", x, y)
	}
	return a.wrap(ii, sx("+", x, y))
}
func (a Arith) sub(ii intInfo, x, y string) string {
	if a.BV {
		return sx("bvsub", x, y)
	}
	return a.wrap(ii, sx("-", x, y))
}
func (a Arith) mul(ii intInfo, x, y string) string {
	if a.BV {
		return sx("bvmul", x, y)
	}
	return a.wrap(ii, sx("*", x, y))
}

// ixadd etc.: index arithmetic without wrap (used for offsets, proven in range separately)
func (a Arith) ixadd(x, y string) string {
	if a.BV {
		return sx("bvadd", x, y)
	}
	if x == "0" {
		return y
	}
	if y == "0" {
		return x
	}
	return sx("+", x, y)
}
func (a Arith) ixsub(x, y string) string {
	if a.BV {
		return sx("bvsub", x, y)
	}
	if y == "0" {
		return x
	}
	return sx("-", x, y)
}

// tdiv/trem: Go's truncated division.
func (a Arith) quo(ii intInfo, x, y string) string {
	if a.BV {
		if ii.signed {
			return sx("bvsdiv", x, y)
		}
		return sx("bvudiv", x, y)
	}
	if !ii.signed {
		return sx("div", x, y)
	}
	// truncated: sign(x)*sign(y) * (|x| div |y|)
	q := sx("div", sx("abs", x), sx("abs", y))
	return a.wrap(ii, ite(sx("=", sx(">=", x, "0"), sx(">=", y, "0")), q, sx("-", q)))
}
func (a Arith) rem(ii intInfo, x, y string) string {
	if a.BV {
		if ii.signed {
			return sx("bvsrem", x, y)
		}
		return sx("bvurem", x, y)
	}
	if !ii.signed {
		return sx("mod", x, y)
	}
	r := sx("mod", sx("abs", x), sx("abs", y))
	return ite(sx(">=", x, "0"), r, sx("-", r))
}

// conv converts integer x of type from to type to.
func (a Arith) conv(from, to intInfo, x string) string {
	if a.BV {
		switch {
		case from.bits == to.bits:
			return x
		case from.bits > to.bits:
			return sx(fmt.Sprintf("(_ extract %d 0)", to.bits-1), x)
		default:
			if from.signed {
				return sx(fmt.Sprintf("(_ sign_extend %d)", to.bits-from.bits), x)
			}
			return sx(fmt.Sprintf("(_ zero_extend %d)", to.bits-from.bits), x)
		}
	}
	// value preserved if target range includes source range
	if to.min().Cmp(from.min()) <= 0 && to.max().Cmp(from.max()) >= 0 {
		return x
	}
	return a.wrap(to, x)
}

// ---------------------------------------------------------------------------
// prelude

func (a Arith) prelude() string {
	ix := a.IX()
	var sb strings.Builder
	sb.WriteString("(set-option :produce-models true)\n(set-logic ALL)\n")
	fmt.Fprintf(&sb, "(define-sort IX () %s)\n", ix)
	if a.BV {
		sb.WriteString("(define-sort BYTE () (_ BitVec 8))\n")
	} else {
		sb.WriteString("(define-sort BYTE () Int)\n")
	}
	sb.WriteString(`(declare-datatypes ((Path 0)) (((pnil) (pfld (fpp Path) (fidx Int)) (pelem (epp Path) (pidx IX)))))
(declare-datatypes ((Loc 0)) (((mkloc (rt Int) (lpath Path)))))
(define-fun lnil () Loc (mkloc (- 1000000000) pnil))
(define-fun lroot ((n Int)) Loc (mkloc n pnil))
(define-fun lfld ((p Loc) (k Int)) Loc (mkloc (rt p) (pfld (lpath p) k)))
(define-fun lelem ((p Loc) (k IX)) Loc (mkloc (rt p) (pelem (lpath p) k)))
(define-fun is_lelem ((l Loc)) Bool ((_ is pelem) (lpath l)))
(define-fun epar ((l Loc)) Loc (mkloc (rt l) (epp (lpath l))))
(define-fun eidx ((l Loc)) IX (pidx (lpath l)))
(declare-datatypes ((Slice 0)) (((mkslice (sbase Loc) (soff IX) (slen IX) (scap IX)))))
(declare-datatypes ((Iface 0)) (((mkiface (ityp Int) (iptr Loc)))))
(declare-sort Str 0)
(declare-fun slen_ (Str) IX)
(declare-fun sat_ (Str IX) BYTE)
`)
	return sb.String()
}

// sorted keys helper
func sortedKeys[V any](m map[string]V) []string {
	ks := make([]string, 0, len(m))
	for k := range m {
		ks = append(ks, k)
	}
	sort.Strings(ks)
	return ks
}
