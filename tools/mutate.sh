#!/bin/sh
# mutate.sh <file-relative-to-repo> <sed-expr> <func-key-suffix>: scratch copy of /repo with one edit, govc vc on a function.
set -e
D=$(mktemp -d /var/tmp/mut-XXXXXX)
trap 'rm -rf "$D"' EXIT
rsync -a --exclude .git /repo/ "$D/"
sed -i "$2" "$D/$1"
if cmp -s "$D/$1" "/repo/$1"; then echo "MUTATION DID NOT CHANGE THE FILE"; exit 2; fi
cd /verif && ./bin/govc vc -repo "$D" -func "$3" 2>&1 | grep -v "unsat\|cover " || true
