package main

// Translation of contract expressions into SMT terms.

import (
	"golang.org/x/tools/go/ssa/ssautil"
	"fmt"
	"go/ast"
	"go/constant"
	"go/parser"
	"go/token"
	"go/types"
	"math/big"
	"sort"
	"strings"

	"golang.org/x/tools/go/ssa"
)

type Env struct {
	vars     map[string]TV
	st, old  *State
	loopVals map[*ssa.Phi]TV
	loop     *loopInfo
	pkg      *types.Package
	bound    []string   // quantified variable SMT names (innermost last)
	pats     *[]string  // candidate pattern terms
	specHeap map[string]string // inside a spec body: heap key -> parameter name
	specKeys *[]string
	inSpec   string
	atBlock  *ssa.BasicBlock
	atIdx    int
	argVals  map[string]ssa.Value // at a call site: contract parameter name -> actual argument
	nowSt    *State               // inside old(...): the current state (for now(...))
	inTrigger bool                // translating an explicit trigger: plain heap reads only
	derefConst map[string]TV      // at a closure call: constant content of captured single-assignment variables
}

func (vc *VC) newEnv(st, old *State) *Env {
	e := &Env{vars: map[string]TV{}, st: st, old: old, loopVals: map[*ssa.Phi]TV{}, pkg: vc.pkg}
	for k, v := range vc.entryEnv {
		e.vars[k] = v
	}
	return e
}

func (e *Env) child() *Env {
	n := *e
	n.vars = make(map[string]TV, len(e.vars))
	for k, v := range e.vars {
		n.vars[k] = v
	}
	return &n
}

var untypedInt = types.Typ[types.UntypedInt]

// trGoal translates a formula that is about to be PROVED: universal quantifiers in positive
// position (top level, right of an implication, under a conjunction) are skolemised here, with fresh
// constants, instead of being left to the solver under a negation (the installed solvers are far more
// reliable on "facts and not body[c]" than on "not (forall x. body)").
func (vc *VC) trGoal(e Expr, env *Env) string {
	switch x := e.(type) {
	case *EQuant:
		if x.Forall && len(x.Vars) > 0 {
			e2 := env.child()
			for _, b := range x.Vars {
				t := vc.parseType(b.Type, env.pkg)
				vc.fresh++
				sk := vc.declare(fmt.Sprintf("sk_%s_%d", b.Name, vc.fresh), vc.sortOf(t))
				e2.vars[b.Name] = TV{T: t, S: sk}
				if vc.goalSks != nil {
					vc.goalSks[b.Name] = e2.vars[b.Name]
				}
			}
			return vc.trGoal(x.Body, e2)
		}
	case *EBin:
		switch x.Op {
		case "==>":
			return imp(vc.trBool(x.X, env), vc.trGoal(x.Y, env))
		case "&&":
			return and(vc.trGoal(x.X, env), vc.trGoal(x.Y, env))
		}
	}
	return vc.trBool(e, env)
}

// trGoalHyp: like trGoal for a loop invariant on the back edge, and in addition the instances of
// the same clause in the loop-head state (where it was assumed) at the skolem constants.
func (vc *VC) trGoalHyp(e Expr, now, head *Env, depth int) (goal string, hyps []string) {
	switch x := e.(type) {
	case *EQuant:
		if x.Forall && len(x.Vars) > 0 {
			n2, h2 := now.child(), head.child()
			for _, b := range x.Vars {
				t := vc.parseType(b.Type, now.pkg)
				var tv TV
				if given, ok := vc.goalBind[b.Name]; ok {
					tv = vc.coerceInt(given, t)
					tv.T = t
				} else {
					vc.fresh++
					tv = TV{T: t, S: vc.declare(fmt.Sprintf("sk_%s_%d", b.Name, vc.fresh), vc.sortOf(t))}
					if vc.goalSks != nil {
						vc.goalSks[b.Name] = tv
					}
				}
				n2.vars[b.Name] = tv
				h2.vars[b.Name] = tv
			}
			return vc.trGoalHyp(x.Body, n2, h2, depth+1)
		}
	case *EBin:
		switch x.Op {
		case "==>":
			g, hs := vc.trGoalHyp(x.Y, now, head, depth)
			if len(hs) > 0 {
				a := vc.trBool(x.X, head)
				for i := range hs {
					hs[i] = imp(a, hs[i])
				}
			}
			return imp(vc.trBool(x.X, now), g), hs
		case "&&":
			g1, h1 := vc.trGoalHyp(x.X, now, head, depth)
			g2, h2 := vc.trGoalHyp(x.Y, now, head, depth)
			return and(g1, g2), append(h1, h2...)
		}
	}
	if depth > 0 {
		hyps = []string{vc.trBool(e, head)}
	}
	return vc.trBool(e, now), hyps
}

// applyInstances: `instance @target of loop N @source with ...` hints for the clause being proved.
// Each adds an instance of a loop invariant in the state where that invariant was assumed (the head
// of its loop): an instance of an assumed fact, so it can help a proof but never make one unsound.
func (vc *VC) applyInstances(target string, sks map[string]TV) {
	if vc.fc == nil {
		return
	}
	for _, h := range vc.fc.Hints {
		if h.Kind != "instance" || h.Label != target {
			continue
		}
		var li *loopInfo
		for _, l := range vc.loops {
			if l.ord == h.SrcLoop {
				li = l
			}
		}
		if li == nil || li.lc == nil {
			vc.unsupportedf("CONTRACT-UNRESOLVED instance %s: no loop %d with invariants", h.Src, h.SrcLoop)
			continue
		}
		if li.hdrSt == nil {
			continue // this program point comes before the loop: nothing was assumed yet
		}
		var src *Clause
		for i := range li.lc.Invariants {
			if li.lc.Invariants[i].Label == h.SrcLabel {
				src = &li.lc.Invariants[i]
			}
		}
		if src == nil {
			vc.unsupportedf("CONTRACT-UNRESOLVED instance %s: loop %d has no invariant @%s", h.Src, h.SrcLoop, h.SrcLabel)
			continue
		}
		head := vc.loopEnv(li, nil, li.hdrSt).child()
		for n, tv := range sks {
			head.vars[n] = tv
		}
		bind := map[string]TV{}
		for _, b := range h.Binds {
			bind[b.Name] = vc.tr(b.E, head)
		}
		saveB, saveS := vc.goalBind, vc.goalSks
		vc.goalBind, vc.goalSks = bind, nil
		_, hyps := vc.trGoalHyp(src.E, head, head, 0)
		vc.goalBind, vc.goalSks = saveB, saveS
		for _, hy := range hyps {
			vc.addFact("assume", imp(vc.reach[li.header.Index], hy))
		}
	}
}

func (vc *VC) trBool(e Expr, env *Env) string {
	tv := vc.tr(e, env)
	return tv.S
}

func (vc *VC) errTV(f string, a ...interface{}) TV {
	vc.unsupportedf("contract: "+f, a...)
	return TV{T: types.Typ[types.Bool], S: vc.freshConst("err", "Bool")}
}

// envHeapRead reads the heap in the environment's state (or spec heap parameter).
func (vc *VC) envHeapRead(env *Env, key string, elem types.Type, idx string) string {
	var h string
	if env.specHeap != nil {
		vc.heapKeySort(key, elem)
		if _, ok := env.specHeap[key]; !ok {
			env.specHeap[key] = "hp_" + mangle(key)
			*env.specKeys = append(*env.specKeys, key)
		}
		h = env.specHeap[key]
	} else {
		h = vc.heapGet(env.st, key, elem)
	}
	t := sx("select", h, idx)
	vc.notePat(env, t)
	return t
}

func (vc *VC) notePat(env *Env, t string) {
	if env.pats == nil || len(env.bound) == 0 {
		return
	}
	for _, b := range env.bound {
		if containsSym(t, b) {
			*env.pats = append(*env.pats, t)
			return
		}
	}
}

func containsSym(t, sym string) bool {
	i := 0
	for {
		j := strings.Index(t[i:], sym)
		if j < 0 {
			return false
		}
		j += i
		end := j + len(sym)
		okL := j == 0 || strings.ContainsRune(" ()", rune(t[j-1]))
		okR := end == len(t) || strings.ContainsRune(" ()", rune(t[end]))
		if okL && okR {
			return true
		}
		i = j + 1
	}
}

// coerceInt converts an untyped literal to the given type (or int if nil).
func (vc *VC) coerceInt(v TV, to types.Type) TV {
	if !v.Untyped {
		return v
	}
	if to == nil {
		to = types.Typ[types.Int]
	}
	ii, ok := basicInt(to)
	if !ok {
		return v
	}
	n, _ := new(big.Int).SetString(v.S, 10)
	return TV{T: to, S: vc.ar.num(ii, n)}
}

func (vc *VC) tr(e Expr, env *Env) TV {
	switch x := e.(type) {
	case *EBool:
		return TV{T: types.Typ[types.Bool], S: fmt.Sprint(x.Val)}
	case *EInt:
		return TV{T: untypedInt, S: x.Val, Untyped: true}
	case *EStr:
		return TV{T: types.Typ[types.String], S: vc.strLit(x.Val)}
	case *EIdent:
		return vc.trIdent(x.Name, env)
	case *EUn:
		a := vc.tr(x.X, env)
		switch x.Op {
		case "!":
			return TV{T: types.Typ[types.Bool], S: not(a.S)}
		case "-":
			if a.Untyped {
				return TV{T: untypedInt, S: "-" + a.S, Untyped: true}
			}
			if vc.ar.BV {
				return TV{T: a.T, S: sx("bvneg", a.S)}
			}
			return TV{T: a.T, S: sx("-", a.S)}
		case "^":
			a = vc.coerceInt(a, nil)
			if vc.ar.BV {
				return TV{T: a.T, S: sx("bvnot", a.S)}
			}
		}
		return vc.errTV("unary %s", x.Op)
	case *EBin:
		return vc.trBin(x, env)
	case *ESel:
		// package-qualified constant?
		if id, ok := x.X.(*EIdent); ok {
			if _, isVar := env.vars[id.Name]; !isVar {
				if p := vc.findImport(env.pkg, id.Name); p != nil {
					return vc.trPkgObj(p, x.Name, env)
				}
			}
		}
		a := vc.tr(x.X, env)
		return vc.trField(a, x.Name, env)
	case *EIndex:
		a := vc.tr(x.X, env)
		i := vc.tr(x.I, env)
		return vc.trIndex(a, i, env)
	case *ESlice:
		a := vc.tr(x.X, env)
		return vc.trSlice(a, x, env)
	case *ECall:
		return vc.trCall(x, env)
	case *EQuant:
		return vc.trQuant(x, env)
	}
	return vc.errTV("expression %T", e)
}

func (vc *VC) findImport(pkg *types.Package, name string) *types.Package {
	for _, p := range pkg.Imports() {
		if p.Name() == name {
			return p
		}
	}
	// import aliases used by the package's source files
	for _, pp := range vc.prog.pkgs {
		if pp.Types != pkg {
			continue
		}
		for _, f := range pp.Syntax {
			for _, im := range f.Imports {
				if im.Name != nil && im.Name.Name == name {
					path := strings.Trim(im.Path.Value, "\"")
					if p := vc.prog.byPath[path]; p != nil {
						return p
					}
				}
			}
		}
	}
	// also search all loaded packages by name for convenience in spec files
	if p := vc.prog.pkgByName[name]; p != nil {
		return p
	}
	return nil
}

func (vc *VC) trPkgObj(p *types.Package, name string, env *Env) TV {
	obj := p.Scope().Lookup(name)
	if obj == nil {
		return vc.errTV("unknown %s.%s", p.Name(), name)
	}
	return vc.trObj(obj, env)
}

func (vc *VC) trObj(obj types.Object, env *Env) TV {
	switch o := obj.(type) {
	case *types.Const:
		return vc.constToTV(o.Type(), o.Val())
	case *types.Var:
		// package-level variable
		g := vc.prog.globalFor(o)
		if g == nil {
			return vc.errTV("no ssa global for %s", o.Name())
		}
		if vc.globalsRead != nil {
			vc.globalsRead[g] = true
		}
		loc := vc.globalLoc(g)
		t := o.Type()
		if types.Identical(t, types.Universe.Lookup("error").Type()) && (strings.HasPrefix(g.Name(), "Err") || strings.HasPrefix(g.Name(), "err") || g.Name() == "EOF") {
			return TV{T: t, S: vc.errGlobalConst(g)}
		}
		if isArray(t) {
			return TV{T: types.NewPointer(t), S: loc}
		}
		if isStruct(t) {
			return TV{T: types.NewPointer(t), S: loc}
		}
		return TV{T: t, S: vc.envHeapRead(env, cellKey(t), t, loc)}
	}
	return vc.errTV("object %s not usable in contracts", obj.Name())
}

func (vc *VC) constToTV(t types.Type, v constant.Value) TV {
	switch v.Kind() {
	case constant.Int:
		if b, ok := t.Underlying().(*types.Basic); ok && b.Info()&types.IsUntyped != 0 {
			return TV{T: untypedInt, S: v.ExactString(), Untyped: true}
		}
		ii, _ := basicInt(t)
		n, _ := new(big.Int).SetString(v.ExactString(), 10)
		return TV{T: t, S: vc.ar.num(ii, n)}
	case constant.Bool:
		return TV{T: t, S: fmt.Sprint(constant.BoolVal(v))}
	case constant.String:
		return TV{T: types.Typ[types.String], S: vc.strLit(constant.StringVal(v))}
	}
	return vc.errTV("constant kind %v", v.Kind())
}

func (vc *VC) trIdent(name string, env *Env) TV {
	if tv, ok := env.vars[name]; ok {
		return tv
	}
	if name == "nil" {
		return TV{T: types.Typ[types.UntypedNil], S: "lnil"}
	}
	// iterated0, iterated1, ...: number of keys produced so far by the n-th map range of the function
	if strings.HasPrefix(name, "iterated") && env.specHeap == nil {
		key := "#itern" + name[len("iterated"):]
		if _, ok := vc.heapSort[key]; ok {
			return TV{T: types.Typ[types.Int], S: vc.envHeapRead(env, key, types.Typ[types.Int], "lnil")}
		}
	}
	// visited0, visited1, ...: the set of keys produced so far by the n-th map range of the function
	if strings.HasPrefix(name, "visited") && env.specHeap == nil {
		key := "#iter" + name[len("visited"):]
		if _, ok := vc.heapSort[key]; ok {
			return TV{T: vc.heapElem[key], S: vc.envHeapRead(env, key, vc.heapElem[key], "lnil")}
		}
	}
	// local variable through debug info
	if env.specHeap == nil && vc.fn != nil {
		if tv, ok := vc.localByName(name, env); ok {
			return tv
		}
	}
	if g, ok := vc.prog.cs.Ghosts[name]; ok {
		return vc.ghostRead(g, env)
	}
	if obj := env.pkg.Scope().Lookup(name); obj != nil {
		return vc.trObj(obj, env)
	}
	if obj := types.Universe.Lookup(name); obj != nil {
		if c, ok := obj.(*types.Const); ok {
			return vc.constToTV(c.Type(), c.Val())
		}
	}
	return vc.errTV("unresolved identifier %q in %s", name, vc.name)
}

// localByName resolves a source-level local variable at the environment's
// program point through go/ssa debug references: the nearest dominating
// reference gives the value; it is rejected (unresolved) if another
// assignment to the same variable may lie between it and the point.
func (vc *VC) localByName(name string, env *Env) (TV, bool) {
	b := env.atBlock
	idx := env.atIdx
	if b == nil {
		b = vc.cur
		idx = vc.curIdx
	}
	if b == nil {
		return TV{}, false
	}
	// a phi of the environment's loop named like the variable wins
	type ref struct {
		d   *ssa.DebugRef
		blk *ssa.BasicBlock
		i   int
	}
	match := func(d *ssa.DebugRef) bool {
		id, ok := d.Expr.(*ast.Ident)
		if !ok || id.Name != name {
			return false
		}
		v, isVar := d.Object().(*types.Var)
		if !isVar || v.IsField() {
			return false
		}
		// package-level variables are read from the heap (current value), never through debug snapshots
		if v.Pkg() != nil && v.Parent() == v.Pkg().Scope() {
			return false
		}
		return true
	}
	var found *ref
	var foundPhi *ssa.Phi
	for blk := b; blk != nil && found == nil && foundPhi == nil; blk = blk.Idom() {
		hi := len(blk.Instrs)
		if blk == b && idx < hi {
			hi = idx
		}
		for i := hi - 1; i >= 0; i-- {
			if phi, ok := blk.Instrs[i].(*ssa.Phi); ok && phi.Comment == name {
				foundPhi = phi
				found = &ref{nil, blk, i}
				break
			}
			d, ok := blk.Instrs[i].(*ssa.DebugRef)
			if !ok || !match(d) {
				continue
			}
			found = &ref{d, blk, i}
			break
		}
	}
	if found == nil {
		return TV{}, false
	}
	if foundPhi != nil {
		// stale if the variable is assigned between the phi and the point
		for _, blk := range vc.fn.Blocks {
			for i, ins := range blk.Instrs {
				o, ok := ins.(*ssa.DebugRef)
				if !ok || o.IsAddr || !match(o) || o.X == ssa.Value(foundPhi) {
					continue
				}
				if vc.reachesFwd(found.blk, found.i, blk, i) && vc.reachesFwd(blk, i, b, idx) {
					vc.unsupportedf("contract: variable %q is reassigned between its merge point and the point of use in %s", name, vc.name)
					return TV{}, false
				}
			}
		}
		if tv, ok := env.loopVals[foundPhi]; ok {
			return tv, true
		}
		return vc.val(foundPhi), true
	}
	d := found.d
	if d.IsAddr {
		pt, ok := d.X.Type().Underlying().(*types.Pointer)
		if !ok {
			return TV{}, false
		}
		t := pt.Elem()
		if isStruct(t) || isArray(t) {
			return TV{T: d.X.Type(), S: vc.val(d.X).S}, true
		}
		key, ix := vc.primAddr(d.X, t)
		return TV{T: t, S: vc.envHeapRead(env, key, t, ix)}, true
	}
	// a variable that lives in a memory cell (captured by a closure or address-taken): its debug
	// references are snapshots of loads/stores; the current value is the content of the cell
	if al := vc.cellOfVar(d.Object()); al != nil {
		t := al.Type().Underlying().(*types.Pointer).Elem()
		if isStruct(t) || isArray(t) {
			return TV{T: al.Type(), S: vc.val(al).S}, true
		}
		if sv, ok := vc.constCell(al); ok {
			if _, done := vc.vals[sv]; done || isConstLike(sv) {
				return vc.val(sv), true
			}
		}
		if _, done := vc.vals[al]; done {
			key, ix := vc.primAddr(al, t)
			return TV{T: t, S: vc.envHeapRead(env, key, t, ix)}, true
		}
	}
	// staleness: another reference to the same object with a different value
	// that can execute after `found` and before the point
	for _, blk := range vc.fn.Blocks {
		for i, ins := range blk.Instrs {
			o, ok := ins.(*ssa.DebugRef)
			if !ok || o == d || o.IsAddr || !match(o) || o.Object() != d.Object() || o.X == d.X {
				continue
			}
			if vc.reachesFwd(found.blk, found.i, blk, i) && vc.reachesFwd(blk, i, b, idx) {
				vc.unsupportedf("contract: variable %q is reassigned between its last dominating reference and the point of use in %s; bind it with a loop variable or let", name, vc.name)
				return TV{}, false
			}
		}
	}
	if phi, ok := d.X.(*ssa.Phi); ok {
		if tv, ok := env.loopVals[phi]; ok {
			return tv, true
		}
	}
	return vc.val(d.X), true
}

// reachesFwd: can (b2,i2) execute after (b1,i1) along forward edges (back edges removed)?
func (vc *VC) reachesFwd(b1 *ssa.BasicBlock, i1 int, b2 *ssa.BasicBlock, i2 int) bool {
	if b1 == b2 {
		return i1 < i2
	}
	seen := map[int]bool{}
	stack := []*ssa.BasicBlock{b1}
	for len(stack) > 0 {
		n := stack[len(stack)-1]
		stack = stack[:len(stack)-1]
		for _, s := range n.Succs {
			if s.Dominates(n) || seen[s.Index] {
				continue
			}
			if s == b2 {
				return true
			}
			seen[s.Index] = true
			stack = append(stack, s)
		}
	}
	return false
}

func (vc *VC) ghostRead(g *GhostVar, env *Env) TV {
	t := vc.parseType(g.Type, env.pkg)
	key := "#ghost." + g.Name
	vc.heapKeySort(key, t)
	return TV{T: t, S: vc.envHeapRead(env, key, t, "lnil")}
}

// trField: field selection with auto-deref and embedded promotion.
func (vc *VC) trField(a TV, name string, env *Env) TV {
	t := a.T
	obj, path, _ := types.LookupFieldOrMethod(t, true, env.pkg, name)
	if obj == nil {
		// unexported field of another package: search manually
		obj, path = lookupFieldAny(t, name)
	}
	if _, ok := obj.(*types.Var); !ok || obj == nil {
		return vc.errTV("no field %s in %s", name, t)
	}
	cur := a
	for _, idx := range path {
		cur = vc.fieldStep(cur, idx, env)
	}
	return cur
}

func lookupFieldAny(t types.Type, name string) (types.Object, []int) {
	if p, ok := t.Underlying().(*types.Pointer); ok {
		t = p.Elem()
	}
	st, ok := t.Underlying().(*types.Struct)
	if !ok {
		return nil, nil
	}
	for i := 0; i < st.NumFields(); i++ {
		if st.Field(i).Name() == name {
			return st.Field(i), []int{i}
		}
	}
	for i := 0; i < st.NumFields(); i++ {
		if st.Field(i).Embedded() {
			if o, p := lookupFieldAny(st.Field(i).Type(), name); o != nil {
				return o, append([]int{i}, p...)
			}
		}
	}
	return nil, nil
}

func (vc *VC) fieldStep(a TV, i int, env *Env) TV {
	switch u := a.T.Underlying().(type) {
	case *types.Pointer:
		st, ok := u.Elem().Underlying().(*types.Struct)
		if !ok {
			return vc.errTV("field of non-struct pointer %s", a.T)
		}
		ft := st.Field(i).Type()
		if isStruct(ft) || isArray(ft) {
			return TV{T: types.NewPointer(ft), S: sx("lfld", a.S, fmt.Sprint(i))}
		}
		key := fieldKey(u.Elem(), i)
		cur := vc.envHeapRead(env, key, ft, a.S)
		// a field written only during construction: objects that existed at entry still hold the entry value
		if env.specHeap == nil && !env.inTrigger && vc.entrySt != nil && env.st != vc.entrySt && vc.prog.fieldImmutable(key) {
			entry := vc.heapRead(vc.entrySt, key, ft, a.S)
			if entry != cur {
				vc.assumeNote("fields written only during construction keep their value (whole-module scan of stores on every run)")
				return TV{T: ft, S: ite(sx("<", sx("rt", a.S), vc.entrySt.nextId), entry, cur)}
			}
		}
		return TV{T: ft, S: cur}
	case *types.Struct:
		return TV{T: u.Field(i).Type(), S: vc.structField(a.T, a.S, i)}
	}
	return vc.errTV("field of %s", a.T)
}

func (vc *VC) trIndex(a, i TV, env *Env) TV {
	ar := vc.ar
	if g, ok := a.T.(*GhostType); ok {
		i = vc.coerceInt(i, g.Key)
		t := sx("select", a.S, i.S)
		vc.notePat(env, t)
		return TV{T: g.Val, S: t}
	}
	switch u := a.T.Underlying().(type) {
	case *types.Slice:
		idx := vc.toIX(vc.coerceInt(i, nil))
		loc := sx("lelem", sx("sbase", a.S), ar.ixadd(sx("soff", a.S), idx))
		return vc.readLoc(loc, u.Elem(), env, true)
	case *types.Pointer:
		if arr, ok := u.Elem().Underlying().(*types.Array); ok {
			idx := vc.toIX(vc.coerceInt(i, nil))
			if rom, ok := vc.roms[a.S]; ok {
				t := sx(rom, idx)
				return TV{T: arr.Elem(), S: t}
			}
			return vc.readLoc(sx("lelem", a.S, idx), arr.Elem(), env, true)
		}
	case *types.Basic:
		if u.Info()&types.IsString != 0 {
			idx := vc.toIX(vc.coerceInt(i, nil))
			t := sx("sat_", a.S, idx)
			vc.notePat(env, t)
			return TV{T: types.Typ[types.Byte], S: t}
		}
	case *types.Array:
		idx := vc.toIX(vc.coerceInt(i, nil))
		t := sx("select", a.S, idx)
		vc.notePat(env, t)
		return TV{T: u.Elem(), S: t}
	case *types.Map:
		return vc.mapGetSpec(a, i, u, env)
	}
	return vc.errTV("index on %s", a.T)
}

// readLoc reads a value of type t at loc; aggregates stay as pointers.
func (vc *VC) readLoc(loc string, t types.Type, env *Env, isElem bool) TV {
	if isStruct(t) || isArray(t) {
		return TV{T: types.NewPointer(t), S: loc}
	}
	key := cellKey(t)
	if isElem {
		key = elemKey(t)
	}
	return TV{T: t, S: vc.envHeapRead(env, key, t, loc)}
}

func (vc *VC) trSlice(a TV, x *ESlice, env *Env) TV {
	ar := vc.ar
	switch a.T.Underlying().(type) {
	case *types.Slice:
		lo := ar.ix(0)
		hi := sx("slen", a.S)
		if x.Lo != nil {
			lo = vc.toIX(vc.coerceInt(vc.tr(x.Lo, env), nil))
		}
		if x.Hi != nil {
			hi = vc.toIX(vc.coerceInt(vc.tr(x.Hi, env), nil))
		}
		return TV{T: a.T, S: sx("mkslice", sx("sbase", a.S), ar.ixadd(sx("soff", a.S), lo), ar.ixsub(hi, lo), ar.ixsub(sx("scap", a.S), lo))}
	}
	return vc.errTV("slice expression on %s", a.T)
}

func isBoolT(t types.Type) bool {
	b, ok := t.Underlying().(*types.Basic)
	return ok && b.Info()&types.IsBoolean != 0
}

func (vc *VC) trBin(x *EBin, env *Env) TV {
	B := types.Typ[types.Bool]
	switch x.Op {
	case "&&":
		return TV{T: B, S: and(vc.trBool(x.X, env), vc.trBool(x.Y, env))}
	case "||":
		return TV{T: B, S: or(vc.trBool(x.X, env), vc.trBool(x.Y, env))}
	case "==>":
		return TV{T: B, S: imp(vc.trBool(x.X, env), vc.trBool(x.Y, env))}
	case "<==>":
		return TV{T: B, S: eq(vc.trBool(x.X, env), vc.trBool(x.Y, env))}
	}
	a, b := vc.tr(x.X, env), vc.tr(x.Y, env)
	// reconcile untyped literals
	if a.Untyped && !b.Untyped {
		a = vc.coerceInt(a, b.T)
	} else if b.Untyped && !a.Untyped {
		b = vc.coerceInt(b, a.T)
	} else if a.Untyped && b.Untyped {
		// constant folding
		x1, _ := new(big.Int).SetString(a.S, 10)
		y1, _ := new(big.Int).SetString(b.S, 10)
		r := new(big.Int)
		switch x.Op {
		case "+":
			r.Add(x1, y1)
		case "-":
			r.Sub(x1, y1)
		case "*":
			r.Mul(x1, y1)
		case "<<":
			r.Lsh(x1, uint(y1.Int64()))
		case "/":
			r.Quo(x1, y1)
		default:
			a, b = vc.coerceInt(a, nil), vc.coerceInt(b, nil)
			goto typed
		}
		return TV{T: untypedInt, S: r.String(), Untyped: true}
	}
typed:
	// nil comparisons
	if b.T == types.Typ[types.UntypedNil] || a.T == types.Typ[types.UntypedNil] {
		other := a
		if a.T == types.Typ[types.UntypedNil] {
			other = b
		}
		var e string
		switch other.T.Underlying().(type) {
		case *types.Slice:
			e = eq(sx("sbase", other.S), "lnil")
		case *types.Interface:
			e = eq(sx("ityp", other.S), "0")
		default:
			e = eq(other.S, "lnil")
		}
		if x.Op == "!=" {
			e = not(e)
		}
		return TV{T: B, S: e}
	}
	ii, isInt := basicInt(a.T)
	ar := vc.ar
	switch x.Op {
	case "==":
		return TV{T: B, S: eq(a.S, b.S)}
	case "!=":
		return TV{T: B, S: not(eq(a.S, b.S))}
	}
	if !isInt {
		return vc.errTV("operator %s on %s", x.Op, a.T)
	}
	// mixed int widths in specs: promote the narrower to the wider in int mode (mathematical)
	if bi, ok := basicInt(b.T); ok && ar.BV && bi.bits != ii.bits {
		if x.Op != "<<" && x.Op != ">>" {
			return vc.errTV("operator %s on mixed widths %s / %s", x.Op, a.T, b.T)
		}
	}
	switch x.Op {
	case "<":
		return TV{T: B, S: ar.lt(ii, a.S, b.S)}
	case "<=":
		return TV{T: B, S: ar.le(ii, a.S, b.S)}
	case ">":
		return TV{T: B, S: ar.lt(ii, b.S, a.S)}
	case ">=":
		return TV{T: B, S: ar.le(ii, b.S, a.S)}
	}
	if !ar.BV {
		// mathematical arithmetic
		switch x.Op {
		case "+":
			return TV{T: a.T, S: sx("+", a.S, b.S)}
		case "-":
			return TV{T: a.T, S: sx("-", a.S, b.S)}
		case "*":
			return TV{T: a.T, S: sx("*", a.S, b.S)}
		case "/":
			return TV{T: a.T, S: ar.quo(intInfo{64, ii.signed}, a.S, b.S)}
		case "%":
			return TV{T: a.T, S: ar.rem(intInfo{64, ii.signed}, a.S, b.S)}
		case "<<":
			if c, ok := smtConst(b.S); ok {
				return TV{T: a.T, S: sx("*", a.S, pow2(int(c)).String())}
			}
		case ">>":
			if c, ok := smtConst(b.S); ok {
				return TV{T: a.T, S: sx("div", a.S, pow2(int(c)).String())}
			}
		case "&":
			if c, ok := smtConst(b.S); ok && c >= 0 && c&(c+1) == 0 {
				return TV{T: a.T, S: sx("mod", a.S, fmt.Sprint(c+1))}
			}
		}
		return vc.errTV("operator %s in int mode", x.Op)
	}
	shamt := func() string {
		bi, _ := basicInt(b.T)
		if bi.bits == ii.bits {
			return b.S
		}
		if bi.bits < ii.bits {
			return sx(fmt.Sprintf("(_ zero_extend %d)", ii.bits-bi.bits), b.S)
		}
		return sx(fmt.Sprintf("(_ extract %d 0)", ii.bits-1), b.S)
	}
	var s string
	switch x.Op {
	case "+":
		s = sx("bvadd", a.S, b.S)
	case "-":
		s = sx("bvsub", a.S, b.S)
	case "*":
		s = sx("bvmul", a.S, b.S)
	case "/":
		s = ar.quo(ii, a.S, b.S)
	case "%":
		s = ar.rem(ii, a.S, b.S)
	case "&":
		s = sx("bvand", a.S, b.S)
	case "|":
		s = sx("bvor", a.S, b.S)
	case "^":
		s = sx("bvxor", a.S, b.S)
	case "&^":
		s = sx("bvand", a.S, sx("bvnot", b.S))
	case "<<":
		s = sx("bvshl", a.S, shamt())
	case ">>":
		if ii.signed {
			s = sx("bvashr", a.S, shamt())
		} else {
			s = sx("bvlshr", a.S, shamt())
		}
	default:
		return vc.errTV("operator %s", x.Op)
	}
	return TV{T: a.T, S: s}
}

func smtConst(s string) (int64, bool) {
	var v int64
	if _, err := fmt.Sscanf(s, "%d", &v); err == nil && fmt.Sprint(v) == s {
		return v, true
	}
	return 0, false
}

var castTypes = map[string]types.Type{
	"int": types.Typ[types.Int], "int8": types.Typ[types.Int8], "int16": types.Typ[types.Int16], "int32": types.Typ[types.Int32], "int64": types.Typ[types.Int64],
	"uint": types.Typ[types.Uint], "uint8": types.Typ[types.Uint8], "uint16": types.Typ[types.Uint16], "uint32": types.Typ[types.Uint32], "uint64": types.Typ[types.Uint64],
	"byte": types.Typ[types.Uint8],
}

func (vc *VC) trCall(x *ECall, env *Env) TV {
	B := types.Typ[types.Bool]
	ar := vc.ar
	if t, ok := castTypes[x.Fn]; ok && len(x.Args) == 1 {
		a := vc.tr(x.Args[0], env)
		if a.Untyped {
			return vc.coerceInt(a, t)
		}
		fi, ok1 := basicInt(a.T)
		ti, _ := basicInt(t)
		if !ok1 {
			return vc.errTV("cast of %s", a.T)
		}
		return TV{T: t, S: ar.conv(fi, ti, a.S)}
	}
	switch x.Fn {
	case "len", "cap":
		a := vc.tr(x.Args[0], env)
		I := types.Typ[types.Int]
		switch u := a.T.Underlying().(type) {
		case *types.Slice:
			if x.Fn == "len" {
				return TV{T: I, S: sx("slen", a.S)}
			}
			return TV{T: I, S: sx("scap", a.S)}
		case *types.Basic:
			return TV{T: I, S: sx("slen_", a.S)}
		case *types.Map:
			return TV{T: I, S: vc.mapLenTerm(a, u, env)}
		case *types.Chan:
			if x.Fn == "len" {
				return TV{T: I, S: vc.envHeapRead(env, "#chlen", I, a.S)}
			}
			return TV{T: I, S: vc.envHeapRead(env, "#chcap", I, a.S)}
		case *types.Pointer:
			if arr, ok := u.Elem().Underlying().(*types.Array); ok {
				return TV{T: I, S: ar.ix(arr.Len())}
			}
		case *types.Array:
			return TV{T: I, S: ar.ix(u.Len())}
		}
		return vc.errTV("len of %s", a.T)
	case "old":
		e2 := env.child()
		e2.st = env.old
		if env.nowSt == nil {
			e2.nowSt = env.st
		}
		return vc.tr(x.Args[0], e2)
	case "now":
		// now(e) inside old(...): e evaluated in the current state again
		if env.nowSt == nil {
			return vc.tr(x.Args[0], env)
		}
		e2 := env.child()
		e2.st = env.nowSt
		e2.nowSt = nil
		return vc.tr(x.Args[0], e2)
	case "ite":
		c := vc.trBool(x.Args[0], env)
		a, b := vc.tr(x.Args[1], env), vc.tr(x.Args[2], env)
		if a.Untyped && !b.Untyped {
			a = vc.coerceInt(a, b.T)
		} else if b.Untyped {
			b = vc.coerceInt(b, a.T)
			if a.Untyped {
				a = vc.coerceInt(a, nil)
			}
		}
		rt := a.T
		if bt, ok := a.T.(*types.Basic); ok && bt.Kind() == types.UntypedNil {
			rt = b.T
		}
		return TV{T: rt, S: ite(c, a.S, b.S)}
	case "entry":
		// entry(x): the value loop variable x has when the loop is first entered
		id, ok := x.Args[0].(*EIdent)
		if !ok || env.loop == nil {
			return vc.errTV("entry() needs a loop variable")
		}
		for _, ins := range env.loop.header.Instrs {
			phi, ok := ins.(*ssa.Phi)
			if !ok {
				break
			}
			if phi.Comment != id.Name {
				continue
			}
			var vals []ssa.Value
			for i, p := range env.loop.header.Preds {
				if !vc.isBackEdge(p, env.loop.header) {
					vals = append(vals, phi.Edges[i])
				}
			}
			if len(vals) == 1 {
				tv := vc.val(vals[0])
				tv.T = phi.Type()
				return tv
			}
		}
		return vc.errTV("entry(%s): no unique entry value", id.Name)
	case "wrapi64":
		a := vc.coerceInt(vc.tr(x.Args[0], env), types.Typ[types.Int64])
		return TV{T: types.Typ[types.Int64], S: vc.ar.wrap(intInfo{64, true}, a.S)}
	case "unbox":
		// unbox(x, "T"): the value of dynamic type T stored in interface x
		a := vc.tr(x.Args[0], env)
		tn := x.Args[1].String()
		if es, ok := x.Args[1].(*EStr); ok {
			tn = es.Val
		}
		t := vc.parseType(tn, env.pkg)
		switch t.Underlying().(type) {
		case *types.Pointer, *types.Map, *types.Chan, *types.Signature:
			return TV{T: t, S: sx("iptr", a.S)}
		}
		return TV{T: t, S: vc.envHeapRead(env, "#box"+cellKey(t), t, sx("iptr", a.S))}
	case "ifaceloc":
		// the identity (boxed pointer) of an interface value
		a := vc.tr(x.Args[0], env)
		if _, ok := a.T.Underlying().(*types.Interface); !ok {
			return vc.errTV("ifaceloc of %s", a.T)
		}
		return TV{T: types.Typ[types.UnsafePointer], S: sx("iptr", a.S)}
	case "fnis":
		// fnis(f, "name"): the function value f is a closure of the function whose name ends with name
		a := vc.tr(x.Args[0], env)
		nm := x.Args[1].String()
		if es, ok := x.Args[1].(*EStr); ok {
			nm = es.Val
		}
		id := -1
		for key, fn := range vc.prog.funcs {
			if strings.HasSuffix(key, nm) || strings.HasSuffix(fn.String(), nm) {
				id = vc.prog.funcID(fn)
			}
		}
		if id < 0 {
			// bound-method wrappers and other synthetic functions are not in the index: search all
			for fn := range ssautil.AllFunctions(vc.prog.ssa) {
				if strings.HasSuffix(fn.String(), nm) {
					id = vc.prog.funcID(fn)
				}
			}
		}
		if id < 0 {
			return vc.errTV("fnis: no function named %s", nm)
		}
		vc.heapKeySort("#fnid", types.Typ[types.Int])
		// either a closure made from that function, or the function itself used as a value
		return TV{T: B, S: or(eq(vc.envHeapRead(env, "#fnid", types.Typ[types.Int], a.S), vc.ar.ix(int64(id))), eq(a.S, sx("lroot", fmt.Sprintf("(- %d)", id))))}
	case "waitedfor":
		// waitedfor(ch): this activation has completed a blocking receive from ch
		a := vc.tr(x.Args[0], env)
		vc.heapKeySort("#waited", B)
		return TV{T: B, S: vc.envHeapRead(env, "#waited", B, a.S)}
	case "sentat", "sentcount", "recvcount":
		// sentat(ch, k): the k-th message ever sent on the tracked channel ch; sentcount(ch) / recvcount(ch):
		// number of sends / receives so far
		a := vc.tr(x.Args[0], env)
		ct, ok := a.T.Underlying().(*types.Chan)
		if !ok {
			return vc.errTV("%s needs a channel", x.Fn)
		}
		f := vc.fifoFnFor(ct.Elem())
		I := types.Typ[types.Int]
		switch x.Fn {
		case "sentat":
			k := vc.coerceInt(vc.tr(x.Args[1], env), I)
			return TV{T: ct.Elem(), S: sx(f, a.S, k.S)}
		case "sentcount":
			return TV{T: I, S: vc.envHeapRead(env, "#fifo.sendn", I, a.S)}
		default:
			return TV{T: I, S: vc.envHeapRead(env, "#fifo.recvn", I, a.S)}
		}
	case "callres":
		// callres(f, a...): the result of calling the function-valued argument f (a closure literal of
		// the calling function) on a..., given by the closure's own (separately proved) contract
		// "ensures result == E"
		if len(x.Args) < 1 {
			return vc.errTV("callres needs a function argument")
		}
		id, _ := x.Args[0].(*EIdent)
		if id == nil || env.argVals == nil || env.argVals[id.Name] == nil {
			return vc.errTV("callres: %s is not a parameter bound to an argument here", x.Args[0])
		}
		av := env.argVals[id.Name]
		for {
			if ct, ok := av.(*ssa.ChangeType); ok {
				av = ct.X
				continue
			}
			break
		}
		mc, _ := av.(*ssa.MakeClosure)
		if mc == nil {
			return vc.errTV("callres: argument %s is not a closure literal", id.Name)
		}
		cfn := mc.Fn.(*ssa.Function)
		top := cfn
		for top.Parent() != nil {
			top = top.Parent()
		}
		cfc := vc.lookupContract(top.Pkg.Pkg.Path() + "." + funcRelName(cfn))
		if cfc == nil {
			return vc.errTV("callres: closure %s has no contract", funcRelName(cfn))
		}
		var body Expr
		for _, e := range cfc.Ensures {
			if b, ok := e.E.(*EBin); ok && b.Op == "==" {
				if l, ok := b.X.(*EIdent); ok && l.Name == "result" {
					body = b.Y
				}
			}
		}
		if body == nil {
			return vc.errTV("callres: closure %s has no clause 'ensures result == E'", funcRelName(cfn))
		}
		cenv := &Env{vars: map[string]TV{}, st: env.st, old: env.st, loopVals: map[*ssa.Phi]TV{}, pkg: top.Pkg.Pkg, bound: env.bound, pats: env.pats}
		for i, p := range cfn.Params {
			if i+1 < len(x.Args) {
				cenv.vars[p.Name()] = vc.coerceInt(vc.tr(x.Args[i+1], env), p.Type())
			}
		}
		for i, fv := range cfn.FreeVars {
			if i < len(mc.Bindings) {
				cenv.vars[fv.Name()] = vc.val(mc.Bindings[i])
			}
		}
		vc.closureSpecsUsed[funcRelName(cfn)] = true
		return vc.tr(body, cenv)
	case "deref":
		if id, ok := x.Args[0].(*EIdent); ok && env.derefConst != nil {
			if tv, ok := env.derefConst[id.Name]; ok {
				return tv
			}
		}
		a := vc.tr(x.Args[0], env)
		pt, ok := a.T.Underlying().(*types.Pointer)
		if !ok {
			return vc.errTV("deref of %s", a.T)
		}
		if isStruct(pt.Elem()) || isArray(pt.Elem()) {
			return a
		}
		// captured single-assignment variable of a closure
		if vc.fn != nil && strings.HasPrefix(a.S, "fv_") {
			for _, fv := range vc.fn.FreeVars {
				if "fv_"+mangle(fv.Name()) == a.S {
					if c, ok := vc.freeVarConst(fv, pt.Elem()); ok {
						return TV{T: pt.Elem(), S: c}
					}
				}
			}
		}
		return TV{T: pt.Elem(), S: vc.envHeapRead(env, cellKey(pt.Elem()), pt.Elem(), a.S)}
	case "closed":
		a := vc.tr(x.Args[0], env)
		return TV{T: B, S: vc.envHeapRead(env, "#closed", B, a.S)}
	case "held":
		a := vc.tr(x.Args[0], env)
		return TV{T: B, S: vc.envHeapRead(env, "#held", B, a.S)}
	case "polledopen":
		// polledopen(ch): this activation has executed a non-blocking select over ch that took its
		// default branch (nothing to receive, so the channel was not closed at that moment)
		a := vc.tr(x.Args[0], env)
		vc.heapKeySort("#polled", B)
		return TV{T: B, S: vc.envHeapRead(env, "#polled", B, a.S)}
	case "oncedone":
		// oncedone(o): the sync.Once o has fired (tracked under "flag model-once")
		a := vc.tr(x.Args[0], env)
		vc.heapKeySort("#once", B)
		return TV{T: B, S: vc.envHeapRead(env, "#once", B, a.S)}
	case "isnil":
		a := vc.tr(x.Args[0], env)
		switch a.T.Underlying().(type) {
		case *types.Slice:
			return TV{T: B, S: eq(sx("sbase", a.S), "lnil")}
		case *types.Interface:
			return TV{T: B, S: eq(sx("ityp", a.S), "0")}
		}
		return TV{T: B, S: eq(a.S, "lnil")}
	case "fresh":
		// fresh(p): allocated during this call
		a := vc.tr(x.Args[0], env)
		loc := a.S
		if _, ok := a.T.Underlying().(*types.Slice); ok {
			loc = sx("sbase", a.S)
		}
		// relative to the state old() refers to: the function's entry in its own contract and
		// invariants, the moment of the call where a callee's contract is applied
		base := vc.entrySt.nextId
		if env.old != nil && env.old.nextId != "" {
			base = env.old.nextId
		}
		return TV{T: B, S: sx(">=", sx("rt", loc), base)}
	case "sameslice":
		a, b := vc.tr(x.Args[0], env), vc.tr(x.Args[1], env)
		return TV{T: B, S: and(eq(sx("sbase", a.S), sx("sbase", b.S)), eq(sx("soff", a.S), sx("soff", b.S)), eq(sx("slen", a.S), sx("slen", b.S)))}
	case "base":
		a := vc.tr(x.Args[0], env)
		return TV{T: types.Typ[types.UnsafePointer], S: sx("sbase", a.S)}
	case "off":
		a := vc.tr(x.Args[0], env)
		return TV{T: types.Typ[types.Int], S: sx("soff", a.S)}
	case "disjoint":
		// disjoint(s, t): the two slices' capacity windows do not overlap
		a, b := vc.tr(x.Args[0], env), vc.tr(x.Args[1], env)
		le := func(p, q string) string { return ar.le(ixInfo, p, q) }
		return TV{T: B, S: or(not(eq(sx("sbase", a.S), sx("sbase", b.S))),
			le(ar.ixadd(sx("soff", a.S), sx("scap", a.S)), sx("soff", b.S)),
			le(ar.ixadd(sx("soff", b.S), sx("scap", b.S)), sx("soff", a.S)))}
	case "typeis":
		a := vc.tr(x.Args[0], env)
		tn := x.Args[1].String()
		if es, ok := x.Args[1].(*EStr); ok {
			tn = es.Val
		}
		t := vc.parseType(tn, env.pkg)
		return TV{T: B, S: eq(sx("ityp", a.S), fmt.Sprint(vc.typeID(t)))}
	case "ifaceptr":
		a := vc.tr(x.Args[0], env)
		tn := x.Args[1].String()
		if es, ok := x.Args[1].(*EStr); ok {
			tn = es.Val
		}
		t := vc.parseType(tn, env.pkg)
		return TV{T: t, S: sx("iptr", a.S)}
	case "has":
		// has(m, k): key present in map
		m := vc.tr(x.Args[0], env)
		k := vc.tr(x.Args[1], env)
		if g, ok := m.T.(*GhostType); ok {
			k = vc.coerceInt(k, g.Key)
			t := sx("select", m.S, k.S)
			vc.notePat(env, t)
			return TV{T: B, S: t}
		}
		mt, ok := m.T.Underlying().(*types.Map)
		if !ok {
			return vc.errTV("has on %s", m.T)
		}
		return TV{T: B, S: vc.mapHasTerm(m, k, mt, env)}
	case "str":
		// str(b): the string with the bytes of slice b (spec-level conversion)
		a := vc.tr(x.Args[0], env)
		return TV{T: types.Typ[types.String], S: vc.strOfBytes(a, env)}
	}
	if sf, ok := vc.prog.cs.Specs[x.Fn]; ok {
		return vc.specCall(sf, x.Args, env)
	}
	return vc.errTV("unknown function %s in contract", x.Fn)
}

// strOfBytes: uninterpreted bridge str(bytes) characterised pointwise.
func (vc *VC) strOfBytes(a TV, env *Env) string {
	bt := types.Typ[types.Byte]
	var h string
	if env.specHeap != nil {
		vc.heapKeySort(elemKey(bt), bt)
		if _, ok := env.specHeap[elemKey(bt)]; !ok {
			env.specHeap[elemKey(bt)] = "hp_" + mangle(elemKey(bt))
			*env.specKeys = append(*env.specKeys, elemKey(bt))
		}
		h = env.specHeap[elemKey(bt)]
	} else {
		h = vc.heapGet(env.st, elemKey(bt), bt)
	}
	vc.needStrOf()
	return sx("strof", h, a.S)
}

func (vc *VC) needStrOf() {
	if vc.specUsed["#strof"] {
		return
	}
	vc.specUsed["#strof"] = true
	bt := types.Typ[types.Byte]
	hs := vc.heapKeySort(elemKey(bt), bt)
	vc.specDefs = append(vc.specDefs,
		fmt.Sprintf("(declare-fun strof (%s Slice) Str)", hs),
		fmt.Sprintf("(assert (forall ((h %s) (s Slice)) (! (= (slen_ (strof h s)) (slen s)) :pattern ((strof h s)))))", hs),
		fmt.Sprintf("(assert (forall ((h %s) (s Slice) (k IX)) (! (= (sat_ (strof h s) k) (select h (lelem (sbase s) (%s (soff s) k)))) :pattern ((sat_ (strof h s) k)))))", hs, map[bool]string{true: "bvadd", false: "+"}[vc.ar.BV]))
}

func (vc *VC) trQuant(x *EQuant, env *Env) TV {
	e2 := env.child()
	var binders []string
	var pats []string
	e2.pats = &pats
	for _, b := range x.Vars {
		t := vc.parseType(b.Type, env.pkg)
		vc.fresh++
		n := fmt.Sprintf("q_%s_%d", b.Name, vc.fresh)
		e2.vars[b.Name] = TV{T: t, S: n}
		e2.bound = append(append([]string{}, e2.bound...), n)
		binders = append(binders, fmt.Sprintf("(%s %s)", n, vc.sortOf(t)))
	}
	body := vc.trBool(x.Body, e2)
	q := "exists"
	if x.Forall {
		q = "forall"
	}
	mine := e2.bound[len(e2.bound)-len(x.Vars):]
	// explicit triggers given in the contract
	if len(x.Triggers) > 0 {
		var ps []string
		for _, g := range x.Triggers {
			var ts []string
			for _, te := range g {
				e3 := e2.child()
				e3.inTrigger = true
				t := vc.tr(te, e3).S
				// has(m, k) on a Go map is (and (not (= m nil)) (select dom k)): the select is the trigger
				if strings.HasPrefix(t, "(and (not (= ") {
					parts := splitSexp(t[len("(and ") : len(t)-1])
					if len(parts) == 2 {
						t = parts[1]
					}
				}
				ts = append(ts, t)
			}
			ps = append(ps, ":pattern ("+strings.Join(ts, " ")+")")
		}
		return TV{T: types.Typ[types.Bool], S: fmt.Sprintf("(%s (%s) (! %s %s))", q, strings.Join(binders, " "), body, strings.Join(ps, " "))}
	}
	// propagate pattern candidates to an enclosing quantifier
	if env.pats != nil {
		for _, p := range pats {
			*env.pats = append(*env.pats, p)
		}
	}
	if true {
		// 1. re-index every bound variable that is used as a slice index base[off + k] by the absolute
		//    element index, so that triggers are free of arithmetic
		var cands []string
		seen := map[string]bool{}
		for _, p := range pats {
			if !seen[p] && !strings.Contains(p, "(forall") && !strings.Contains(p, "(exists") {
				seen[p] = true
				cands = append(cands, p)
			}
		}
		// a single bound variable indexing several slices/heap versions: one equivalent copy of the
		// formula per slice, each triggered by the arithmetic-free element term of that slice
		if len(mine) == 1 {
			var alts []string
			for n := 0; n < 3; n++ {
				nb, np, _, ok := vc.reindexVarN(mine[0], mine, body, cands, n)
				if !ok {
					break
				}
				alts = append(alts, fmt.Sprintf("(%s (%s) (! %s :pattern (%s)))", q, strings.Join(binders, " "), nb, np))
			}
			if len(alts) == 1 {
				return TV{T: types.Typ[types.Bool], S: alts[0]}
			}
			if len(alts) > 1 {
				if x.Forall {
					return TV{T: types.Typ[types.Bool], S: "(and " + strings.Join(alts, " ") + ")"}
				}
				return TV{T: types.Typ[types.Bool], S: "(or " + strings.Join(alts, " ") + ")"}
			}
		}
		trig := map[string]string{}
		for _, v := range mine {
			nb, np, nc, ok := vc.reindexVar(v, mine, body, cands)
			if ok {
				body, cands = nb, nc
				trig[v] = np
			}
		}
		// 2. triggers: a term mentioning all variables, else one term per variable
		var all []string
		for _, c := range cands {
			ok := true
			for _, v := range mine {
				if !containsSym(c, v) {
					ok = false
				}
			}
			if ok {
				all = append(all, c)
			}
		}
		if len(mine) == 1 {
			if t, ok := trig[mine[0]]; ok {
				return TV{T: types.Typ[types.Bool], S: fmt.Sprintf("(%s (%s) (! %s :pattern (%s)))", q, strings.Join(binders, " "), body, t)}
			}
		}
		if len(all) > 0 {
			var ps []string
			for _, g := range all {
				ps = append(ps, ":pattern ("+g+")")
			}
			return TV{T: types.Typ[types.Bool], S: fmt.Sprintf("(%s (%s) (! %s %s))", q, strings.Join(binders, " "), body, strings.Join(ps, " "))}
		}
		var multi []string
		for _, v := range mine {
			t := trig[v]
			if t == "" {
				for _, c := range cands {
					if containsSym(c, v) {
						t = c
						break
					}
				}
			}
			if t == "" {
				multi = nil
				break
			}
			multi = append(multi, t)
		}
		if len(multi) > 0 {
			return TV{T: types.Typ[types.Bool], S: fmt.Sprintf("(%s (%s) (! %s :pattern (%s)))", q, strings.Join(binders, " "), body, strings.Join(multi, " "))}
		}
	}
	return TV{T: types.Typ[types.Bool], S: fmt.Sprintf("(%s (%s) %s)", q, strings.Join(binders, " "), body)}
}

// ---------------------------------------------------------------------------
// types from text

func (vc *VC) parseType(s string, pkg *types.Package) types.Type {
	s = strings.TrimSpace(s)
	if strings.HasPrefix(s, "set[") && strings.HasSuffix(s, "]") {
		k := vc.parseType(s[4:len(s)-1], pkg)
		return &GhostType{Sort: fmt.Sprintf("(Array %s Bool)", vc.sortOf(k)), Key: k, Val: types.Typ[types.Bool]}
	}
	if strings.HasPrefix(s, "gmap[") {
		// gmap[K]V ghost total map
		depth, i := 0, 4
		for ; i < len(s); i++ {
			if s[i] == '[' {
				depth++
			} else if s[i] == ']' {
				depth--
				if depth == 0 {
					break
				}
			}
		}
		k := vc.parseType(s[5:i], pkg)
		v := vc.parseType(s[i+1:], pkg)
		return &GhostType{Sort: fmt.Sprintf("(Array %s %s)", vc.sortOf(k), vc.sortOf(v)), Key: k, Val: v}
	}
	if s == "loc" {
		return types.Typ[types.UnsafePointer]
	}
	expr, err := parser.ParseExpr(s)
	if err != nil {
		vc.unsupportedf("type %q: %v", s, err)
		return types.Typ[types.Int]
	}
	return vc.typeFromAST(expr, pkg)
}

func (vc *VC) typeFromAST(e ast.Expr, pkg *types.Package) types.Type {
	switch x := e.(type) {
	case *ast.Ident:
		if t, ok := castTypes[x.Name]; ok {
			return t
		}
		switch x.Name {
		case "bool":
			return types.Typ[types.Bool]
		case "string":
			return types.Typ[types.String]
		case "error":
			return types.Universe.Lookup("error").Type()
		}
		if pkg != nil {
			if obj := pkg.Scope().Lookup(x.Name); obj != nil {
				if tn, ok := obj.(*types.TypeName); ok {
					return tn.Type()
				}
			}
		}
		// search all repo packages for a unique type name (spec files)
		if t := vc.prog.typeByName(x.Name); t != nil {
			return t
		}
	case *ast.StarExpr:
		return types.NewPointer(vc.typeFromAST(x.X, pkg))
	case *ast.ArrayType:
		if x.Len == nil {
			return types.NewSlice(vc.typeFromAST(x.Elt, pkg))
		}
	case *ast.MapType:
		return types.NewMap(vc.typeFromAST(x.Key, pkg), vc.typeFromAST(x.Value, pkg))
	case *ast.SelectorExpr:
		if id, ok := x.X.(*ast.Ident); ok {
			if p := vc.findImport(pkg, id.Name); p != nil {
				if obj := p.Scope().Lookup(x.Sel.Name); obj != nil {
					return obj.Type()
				}
			}
		}
	case *ast.ParenExpr:
		return vc.typeFromAST(x.X, pkg)
	case *ast.InterfaceType:
		return types.NewInterfaceType(nil, nil)
	}
	vc.unsupportedf("cannot resolve type %s", types.ExprString(e))
	return types.Typ[types.Int]
}

var _ = token.NoPos

// reindexVar: if some candidate has the shape (select H (lelem B (+ O k))) with H, B, O free of every
// bound variable, substitute k := (- k O) in the body and in all candidates; the candidate becomes
// (select H (lelem B k)), which is returned as the trigger for k.
func (vc *VC) reindexVar(k string, bound []string, body string, cands []string) (string, string, []string, bool) {
	return vc.reindexVarN(k, bound, body, cands, 0)
}

// reindexVarN: as reindexVar, using the n-th viable candidate (distinct resulting triggers).
func (vc *VC) reindexVarN(k string, bound []string, body string, cands []string, n int) (string, string, []string, bool) {
	seenTrig := map[string]bool{}
	add, sub := "+", "-"
	if vc.ar.BV {
		add, sub = "bvadd", "bvsub"
	}
	free := func(t string) bool {
		for _, b := range bound {
			if containsSym(t, b) {
				return false
			}
		}
		return true
	}
	sorted := append([]string{}, cands...)
	sort.SliceStable(sorted, func(i, j int) bool {
		hi, hj := strings.SplitN(sorted[i], " ", 3), strings.SplitN(sorted[j], " ", 3)
		if len(hi) < 2 || len(hj) < 2 {
			return false
		}
		return !strings.Contains(hi[1], "!") && strings.Contains(hj[1], "!")
	})
	for _, c := range sorted {
		if !strings.HasPrefix(c, "(select ") {
			continue
		}
		parts := splitSexp(c[len("(select ") : len(c)-1])
		if len(parts) != 2 || !free(parts[0]) || !strings.HasPrefix(parts[1], "(lelem ") {
			continue
		}
		le := splitSexp(parts[1][len("(lelem ") : len(parts[1])-1])
		if len(le) != 2 || !free(le[0]) {
			continue
		}
		prefix := "(" + add + " "
		if !strings.HasPrefix(le[1], prefix) {
			continue
		}
		ops := splitSexp(le[1][len(prefix) : len(le[1])-1])
		if len(ops) != 2 || ops[1] != k || !free(ops[0]) {
			continue
		}
		off := ops[0]
		repl := "(" + sub + " " + k + " " + off + ")"
		simp := "(" + add + " " + off + " " + repl + ")"
		fix := func(t string) string { return strings.ReplaceAll(replaceSym(t, k, repl), simp, k) }
		nb := fix(body)
		np := "(select " + parts[0] + " (lelem " + le[0] + " " + k + "))"
		if !strings.Contains(nb, np) {
			continue
		}
		if seenTrig[np] {
			continue
		}
		seenTrig[np] = true
		if len(seenTrig)-1 < n {
			continue
		}
		var nc []string
		for _, x := range cands {
			nc = append(nc, fix(x))
		}
		return nb, np, nc, true
	}
	return "", "", nil, false
}

// replaceSym replaces whole-symbol occurrences of sym in t.
func replaceSym(t, sym, repl string) string {
	var sb strings.Builder
	i := 0
	for i < len(t) {
		j := strings.Index(t[i:], sym)
		if j < 0 {
			sb.WriteString(t[i:])
			break
		}
		j += i
		end := j + len(sym)
		okL := j == 0 || strings.ContainsRune(" ()", rune(t[j-1]))
		okR := end == len(t) || strings.ContainsRune(" ()", rune(t[end]))
		sb.WriteString(t[i:j])
		if okL && okR {
			sb.WriteString(repl)
		} else {
			sb.WriteString(sym)
		}
		i = end
	}
	return sb.String()
}

// cellOfVar: the allocation holding a local variable that was not lifted to SSA registers.
func (vc *VC) cellOfVar(obj types.Object) *ssa.Alloc {
	if obj == nil || vc.fn == nil {
		return nil
	}
	if al, ok := vc.varCells[obj]; ok {
		return al
	}
	var res *ssa.Alloc
	for _, al := range vc.fn.Locals {
		if al.Comment == obj.Name() && al.Pos() == obj.Pos() {
			res = al
		}
	}
	for _, b := range vc.fn.Blocks {
		for _, ins := range b.Instrs {
			if al, ok := ins.(*ssa.Alloc); ok && al.Comment == obj.Name() && al.Pos() == obj.Pos() {
				res = al
			}
		}
	}
	vc.varCells[obj] = res
	return res
}
