#!/bin/sh
# run_seeds.sh [seed-name...] : applies each seeded defect to /repo, runs the check of its
# property, reverts, and prints whether the check reported a violation.
cd /verif
SEEDS="$@"
[ -z "$SEEDS" ] && SEEDS=$(cd seeded && ls -d */ | tr -d /)
if [ -n "$(git -C /repo status --porcelain)" ]; then echo "/repo has uncommitted changes; commit first"; exit 2; fi
for s in $SEEDS; do
  prop=$(python3 -c "import json;print(json.load(open('seeded/$s/meta.json'))['property'])")
  git -C /repo apply /verif/seeded/$s/patch.diff || { echo "$s: PATCH-DOES-NOT-APPLY"; continue; }
  ./bin/govc check -prop $prop -no-evidence > /var/tmp/seedrun-$s.txt 2>&1; rc=$?
  git -C /repo apply -R /verif/seeded/$s/patch.diff
  nv=$(grep -c '^VIOLATION' /var/tmp/seedrun-$s.txt)
  conf=$(grep -c 'counterexample replayed' /var/tmp/seedrun-$s.txt)
  echo "$s: property $prop exit=$rc violations=$nv replay-confirmed=$conf"
done
