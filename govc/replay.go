package main

// Replay of solver counter-models against the real code: a generated
// in-package test is injected with `go test -overlay` (nothing is written to
// the repository), run, and its verdict recorded in the replay file.

import (
	"bytes"
	"context"
	"encoding/json"
	"fmt"
	"math/big"
	"os"
	"os/exec"
	"path/filepath"
	"regexp"
	"strings"
	"sync"
	"time"

	"golang.org/x/tools/go/ssa"
)

type ReplayCtx struct {
	prog *Program
	vc   *VC
	o    *Obl
	dir  string
	// extra constraints added to the obligation's query when a model is asked for (size bounds that
	// make the counterexample small enough to be run)
	extra []string
	// solver budget for model queries in ms (default 20000)
	evalMs int
}

// Eval asks the solver that produced the model for the values of terms.
func (rc *ReplayCtx) Eval(terms ...string) ([]string, bool) {
	q := rc.vc.Query(rc.o)
	if len(rc.extra) > 0 {
		q = strings.TrimSuffix(q, "(check-sat)\n")
		for _, e := range rc.extra {
			q += "(assert " + e + ")\n"
		}
		q += "(check-sat)\n"
	}
	q += "(get-value (" + strings.Join(terms, " ") + "))\n"
	file := filepath.Join(rc.dir, "replay-eval.smt2")
	os.WriteFile(file, []byte(q), 0o644)
	for _, s := range []string{rc.o.Solver, "z3-new", "z3"} {
		if s != "z3" && s != "z3-new" {
			continue
		}
		ms := rc.evalMs
		if ms == 0 {
			ms = 20000
		}
		ctx, cancel := context.WithTimeout(context.Background(), time.Duration(ms+10000)*time.Millisecond)
		out, _ := exec.CommandContext(ctx, s, fmt.Sprintf("-t:%d", ms), file).CombinedOutput()
		cancel()
		txt := string(out)
		i := strings.Index(txt, "sat")
		if !strings.HasPrefix(strings.TrimSpace(txt), "sat") || i < 0 {
			continue
		}
		vals, ok := parseGetValue(txt[i+3:], len(terms))
		if ok {
			return vals, true
		}
	}
	return nil, false
}

// parseGetValue extracts the value s-expressions of a (get-value) answer.
func parseGetValue(s string, n int) ([]string, bool) {
	s = strings.TrimSpace(s)
	if !strings.HasPrefix(s, "(") {
		return nil, false
	}
	// top-level list of (term value) pairs
	items := splitSexp(s[1:])
	var out []string
	for _, it := range items {
		it = strings.TrimSpace(it)
		if !strings.HasPrefix(it, "(") {
			continue
		}
		parts := splitSexp(it[1 : len(it)-1])
		if len(parts) != 2 {
			return nil, false
		}
		out = append(out, strings.TrimSpace(parts[1]))
	}
	if len(out) != n {
		return nil, false
	}
	return out, true
}

// splitSexp splits a sequence of s-expressions at top level.
func splitSexp(s string) []string {
	var out []string
	depth, start := 0, -1
	inStr := false
	for i := 0; i < len(s); i++ {
		c := s[i]
		if inStr {
			if c == '"' {
				inStr = false
			}
			continue
		}
		switch {
		case c == '"':
			inStr = true
			if start < 0 {
				start = i
			}
		case c == '(':
			if depth == 0 && start < 0 {
				start = i
			}
			depth++
		case c == ')':
			depth--
			if depth < 0 {
				if start >= 0 {
					out = append(out, s[start:i])
				}
				return out
			}
			if depth == 0 && start >= 0 {
				out = append(out, s[start:i+1])
				start = -1
			}
		case c == ' ' || c == '\n' || c == '\t':
			if depth == 0 && start >= 0 {
				out = append(out, s[start:i])
				start = -1
			}
		default:
			if start < 0 {
				start = i
			}
		}
	}
	if start >= 0 {
		out = append(out, s[start:])
	}
	return out
}

var reBV = regexp.MustCompile(`^\(_ bv(\d+) (\d+)\)$`)

// smtNum parses an integer / bit-vector model value (signed interpretation if signed).
func smtNum(v string, signed bool) (*big.Int, bool) {
	v = strings.TrimSpace(v)
	if strings.HasPrefix(v, "#x") {
		n, ok := new(big.Int).SetString(v[2:], 16)
		if ok && signed {
			bits := uint(len(v[2:]) * 4)
			if n.Bit(int(bits-1)) == 1 {
				n.Sub(n, new(big.Int).Lsh(big.NewInt(1), bits))
			}
		}
		return n, ok
	}
	if strings.HasPrefix(v, "#b") {
		n, ok := new(big.Int).SetString(v[2:], 2)
		if ok && signed {
			bits := uint(len(v[2:]))
			if n.Bit(int(bits-1)) == 1 {
				n.Sub(n, new(big.Int).Lsh(big.NewInt(1), bits))
			}
		}
		return n, ok
	}
	if m := reBV.FindStringSubmatch(v); m != nil {
		n, ok := new(big.Int).SetString(m[1], 10)
		return n, ok
	}
	if strings.HasPrefix(v, "(- ") {
		n, ok := new(big.Int).SetString(strings.TrimSpace(v[3:len(v)-1]), 10)
		if ok {
			n.Neg(n)
		}
		return n, ok
	}
	n, ok := new(big.Int).SetString(v, 10)
	return n, ok
}

// EvalInts evaluates terms to integers.
func (rc *ReplayCtx) EvalInts(signed bool, terms ...string) ([]int64, bool) {
	vs, ok := rc.Eval(terms...)
	if !ok {
		return nil, false
	}
	var out []int64
	for _, v := range vs {
		n, ok := smtNum(v, signed)
		if !ok || !n.IsInt64() {
			return nil, false
		}
		out = append(out, n.Int64())
	}
	return out, true
}

// SliceBytes reads up to max bytes of a byte slice term in heap version h.
func (rc *ReplayCtx) SliceBytes(slice, heap string, max int64) ([]byte, bool) {
	ar := rc.vc.ar
	ln, ok := rc.EvalInts(true, sx("slen", slice))
	if !ok {
		return nil, false
	}
	n := ln[0]
	if n < 0 || n > max {
		if n > max {
			n = max
		} else {
			return nil, false
		}
	}
	if n == 0 {
		return []byte{}, true
	}
	var ts []string
	for i := int64(0); i < n; i++ {
		ts = append(ts, sx("select", heap, sx("lelem", sx("sbase", slice), ar.ixadd(sx("soff", slice), ar.ix(i)))))
	}
	vs, ok := rc.EvalInts(false, ts...)
	if !ok {
		return nil, false
	}
	out := make([]byte, n)
	for i, v := range vs {
		out[i] = byte(v)
	}
	return out, true
}

func (rc *ReplayCtx) byteHeap(st *State) string {
	return rc.vc.heapGet(st, "[]uint8", nil)
}

// findCall returns the first call instruction whose callee name contains sub.
func (rc *ReplayCtx) findCall(sub string) *ssa.Call {
	for _, b := range rc.vc.fn.Blocks {
		for _, ins := range b.Instrs {
			if c, ok := ins.(*ssa.Call); ok {
				key, _, _ := rc.vc.calleeKey(c.Common())
				if strings.Contains(key, sub) {
					return c
				}
			}
		}
	}
	return nil
}

var (
	pureMu        sync.Mutex
	pureConfirmed = map[string]string{}
	pureTries     = map[string]int{}
)

type replayGen func(rc *ReplayCtx) (pkgDir, testName, src string, ok bool)

var replayGens = map[string]replayGen{}

func goBytes(b []byte) string {
	var sb strings.Builder
	sb.WriteString("[]byte{")
	for i, x := range b {
		if i > 0 {
			sb.WriteString(",")
		}
		fmt.Fprintf(&sb, "%d", x)
	}
	sb.WriteString("}")
	return sb.String()
}

// runOverlayTest injects src as an in-package test of pkgDir (relative to the repo) and runs it.
func runOverlayTest(repo, pkgDir, testName, src, dir string) (failed bool, output string) {
	testFile := filepath.Join(dir, "zz_replay_test.go")
	os.WriteFile(testFile, []byte(src), 0o644)
	ov := map[string]map[string]string{"Replace": {filepath.Join(repo, pkgDir, "zz_govc_replay_test.go"): testFile}}
	ovData, _ := json.Marshal(ov)
	ovFile := filepath.Join(dir, "overlay.json")
	os.WriteFile(ovFile, ovData, 0o644)
	ctx, cancel := context.WithTimeout(context.Background(), 180*time.Second)
	defer cancel()
	cmd := exec.CommandContext(ctx, "go", "test", "-v", "-overlay", ovFile, "-vet=off", "-count=1", "-timeout", "60s", "-run", "^"+testName+"$", "./"+pkgDir)
	cmd.Dir = repo
	cmd.Env = append(os.Environ(), "GOFLAGS=-mod=mod", "GOPROXY=off", "GOSUMDB=off", "GOTOOLCHAIN=local")
	var buf bytes.Buffer
	cmd.Stdout, cmd.Stderr = &buf, &buf
	err := cmd.Run()
	out := buf.String()
	if len(out) > 6000 {
		out = out[:6000] + "..."
	}
	if err != nil && (strings.Contains(out, "goroutine stack exceeds") || strings.Contains(out, "fatal error: stack overflow")) {
		// a stack overflow is a fatal error: the test process dies before it can print anything
		out = "REPLAY-VIOLATION the test process died with a stack overflow (fatal, not recoverable)\n" + out
	}
	return err != nil && strings.Contains(out, "REPLAY-VIOLATION"), out
}

// tryReplay turns a solver model into a concrete input and runs the real code.
func tryReplay(prog *Program, vc *VC, o *Obl, verif string) (bool, string) {
	if vc.fn == nil {
		return false, ""
	}
	gen, ok := replayGens[vc.pkg.Name()+"."+vc.name]
	if !ok {
		if skipRecv, pure := pureEligible(vc); pure {
			if o.Result != "sat" {
				return false, "the solver gave no model"
			}
			key := vc.pkg.Path() + "." + vc.name
			// counter-models of postconditions are the likeliest to be real inputs: they have their own
			// budget, so that loop-cut and safety obligations listed earlier cannot use it up
			tkey, limit := key+"/other", 2
			if o.Kind == "post" {
				tkey, limit = key+"/post", 3
			}
			pureMu.Lock()
			done, tries := pureConfirmed[key], pureTries[tkey]
			pureTries[tkey]++
			pureMu.Unlock()
			if done != "" {
				return false, "a counterexample of this function was already replayed on the real code (see obligation " + done + ")"
			}
			if tries >= limit {
				return false, "replay budget of this function used up by its other failing obligations"
			}
			dir, _ := os.MkdirTemp("/var/tmp", "govc-replay-")
			defer os.RemoveAll(dir)
			ok, line := replayPure(&ReplayCtx{prog: prog, vc: vc, o: o, dir: dir, evalMs: 8000}, skipRecv)
			if ok {
				pureMu.Lock()
				pureConfirmed[key] = o.Name
				pureMu.Unlock()
			}
			return ok, line
		}
		return false, "no replay generator for this function"
	}
	dir, _ := os.MkdirTemp("/var/tmp", "govc-replay-")
	defer os.RemoveAll(dir)
	rc := &ReplayCtx{prog: prog, vc: vc, o: o, dir: dir}
	pkgDir, testName, src, ok := gen(rc)
	if !ok {
		return false, "the model could not be turned into a concrete input"
	}
	failed, out := runOverlayTest(prog.repo, pkgDir, testName, src, dir)
	replayNotes[o.Name] = map[string]interface{}{
		"test_source": src,
		"command":     fmt.Sprintf("cd %s && go test -overlay <overlay.json> -vet=off -count=1 -timeout 60s -run '^%s$' ./%s", prog.repo, testName, pkgDir),
		"output":      out,
		"reproduced":  failed,
	}
	if failed {
		line := ""
		for _, l := range strings.Split(out, "\n") {
			if strings.Contains(l, "REPLAY-VIOLATION") {
				line = strings.TrimSpace(l)
				break
			}
		}
		return true, line
	}
	return false, "replay on the real code did not reproduce a violation"
}
