package main

func init() {
	replayGens["redis.(*scanRequest).Convert$2"] = replayScanEmptyReply
}

// replayScanEmptyReply: the failing index obligations of the SCAN reply hook are
// driven by the shortest array reply a backend can send ("*0\r\n").
func replayScanEmptyReply(rc *ReplayCtx) (string, string, string, bool) {
	if rc.o.Kind != "index" {
		return "", "", "", false
	}
	src := `package redis

import "testing"

func TestGovcReplayScanEmptyArrayReply(t *testing.T) {
	raw := newRawRequest(newStringArray("scan", "0"))
	sr, err := newScanRequest(raw)
	if err != nil {
		t.Fatal(err)
	}
	_, sreq := sr.Convert()
	defer func() {
		if r := recover(); r != nil {
			t.Fatalf("REPLAY-VIOLATION a SCAN reply '*0' from a backend panics the proxy in the reply hook: %v", r)
		}
	}()
	sreq.SetResponse(&RespValue{Type: Array, Array: []RespValue{}})
}
`
	return "proc/redis", "TestGovcReplayScanEmptyArrayReply", src, true
}
