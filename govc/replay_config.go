package main

import "strings"

func init() {
	replayGens["config.(*Config).handleSvcEndpointUpdate"] = replayAnnouncedTwice
}

// first endpoint update of a configured service lists only removals: the service is announced without
// an endpoint list and stays "never announced" for the store, so the next update announces it again
func replayAnnouncedTwice(rc *ReplayCtx) (string, string, string, bool) {
	if rc.o.Kind != "post" || !strings.Contains(rc.o.Name, "announce") {
		return "", "", "", false
	}
	src := `package config

import (
	"testing"

	"github.com/samaritan-proxy/samaritan/pb/common"
	"github.com/samaritan-proxy/samaritan/pb/config/service"
)

func TestGovcReplayAnnouncedTwice(t *testing.T) {
	c := &Config{sws: make(map[string]*serviceWrapper), evtCh: make(chan Event, 32)}
	ep := &service.Endpoint{Address: &common.Address{Ip: "10.0.0.1", Port: 80}}
	c.handleDependencyUpdate([]*service.Service{{Name: "svc"}}, nil)
	c.handleSvcConfigUpdate("svc", &service.Config{})
	// removals before any addition
	c.handleSvcEndpointUpdate("svc", nil, []*service.Endpoint{ep})
	// the first real endpoint
	c.handleSvcEndpointUpdate("svc", []*service.Endpoint{ep}, nil)
	adds, deltas := 0, 0
	for len(c.evtCh) > 0 {
		switch e := (<-c.evtCh).(type) {
		case *SvcAddEvent:
			adds++
			t.Logf("SvcAddEvent endpoints=%v", e.Endpoints)
		case *SvcEndpointEvent:
			deltas++
		}
	}
	if adds != 1 {
		t.Fatalf("REPLAY-VIOLATION the service was announced %d times (first without an endpoint list) and %d endpoint deltas were sent: the controller ignores an announcement for a running processor, so endpoint 10.0.0.1:80 never reaches it", adds, deltas)
	}
}
`
	return "config", "TestGovcReplayAnnouncedTwice", src, true
}

func init() {
	replayGens["config.(*Config).handleSvcConfigUpdate"] = replayCorrectedConfig
}

// an invalid configuration (for which the controller cannot start a processor) is later corrected:
// the store sends a configuration update for a processor that does not exist
func replayCorrectedConfig(rc *ReplayCtx) (string, string, string, bool) {
	if rc.o.Kind != "post" || !strings.Contains(rc.o.Name, "a-corrected-configuration") {
		return "", "", "", false
	}
	src := `package config

import (
	"testing"
	"time"

	"github.com/samaritan-proxy/samaritan/pb/common"
	"github.com/samaritan-proxy/samaritan/pb/config/hc"
	"github.com/samaritan-proxy/samaritan/pb/config/protocol"
	"github.com/samaritan-proxy/samaritan/pb/config/service"
)

func TestGovcReplayCorrectedConfig(t *testing.T) {
	d1, d2 := 3*time.Second, 10*time.Minute
	valid := &service.Config{
		HealthCheck: &hc.HealthCheck{Interval: 10 * time.Second, Timeout: 3 * time.Second, FallThreshold: 3, RiseThreshold: 3,
			Checker: &hc.HealthCheck_TcpChecker{TcpChecker: &hc.TCPChecker{}}},
		Listener:        &service.Listener{Address: &common.Address{Ip: "0.0.0.0", Port: 12321}},
		ConnectTimeout:  &d1,
		IdleTimeout:     &d2,
		LbPolicy:        service.LoadBalancePolicy_LEAST_CONNECTION,
		Protocol:        protocol.TCP,
		ProtocolOptions: &service.Config_TcpOption{TcpOption: &protocol.TCPOption{}},
	}
	invalid := &service.Config{}
	if invalid.Validate() == nil || valid.Validate() != nil {
		t.Skip("test configurations do not have the intended validity")
	}
	c := &Config{sws: make(map[string]*serviceWrapper), evtCh: make(chan Event, 32)}
	ep := &service.Endpoint{Address: &common.Address{Ip: "10.0.0.1", Port: 80}}
	c.handleDependencyUpdate([]*service.Service{{Name: "svc"}}, nil)
	c.handleSvcConfigUpdate("svc", invalid)
	c.handleSvcEndpointUpdate("svc", []*service.Endpoint{ep}, nil) // announced with the invalid configuration: no processor
	for len(c.evtCh) > 0 {
		<-c.evtCh
	}
	c.handleSvcConfigUpdate("svc", valid) // corrected
	announced := false
	for len(c.evtCh) > 0 {
		if _, ok := (<-c.evtCh).(*SvcAddEvent); ok {
			announced = true
		}
	}
	if !announced {
		t.Fatalf("REPLAY-VIOLATION a service announced with an invalid configuration (no processor can be started from it) is not announced again when its configuration is corrected: the controller only receives a configuration update for a processor that does not exist and ignores it, the service never runs")
	}
}
`
	return "config", "TestGovcReplayCorrectedConfig", src, true
}

func init() {
	replayGens["config.(*svcDiscoveryClient).Subscribe"] = replaySubscribeBlocksUnderLock
	replayGens["config.(*svcDiscoveryClient).Unsubscribe"] = replaySubscribeBlocksUnderLock
}

// more pending (un)subscriptions than the queue holds while no sender loop runs: the caller blocks
// inside the client's lock and the reconnection path can never take it
func replaySubscribeBlocksUnderLock(rc *ReplayCtx) (string, string, string, bool) {
	if rc.o.Kind != "blocking-send-while-locked" {
		return "", "", "", false
	}
	src := `package config

import (
	"fmt"
	"testing"
	"time"
)

type govcNopStream struct{}

func (govcNopStream) Send(sub, unsub []string) error { return nil }
func (govcNopStream) Recv() error                    { select {} }
func (govcNopStream) CloseSend() error               { return nil }

func TestGovcReplaySubscribeBlocksUnderLock(t *testing.T) {
	c := newSvcDiscoveryClient("svc", nil)
	// the stream is down (no sender loop): dependencies keep changing
	callerDone := make(chan struct{})
	go func() {
		for i := 0; i < 17; i++ {
			c.Subscribe(fmt.Sprintf("svc-%d", i))
		}
		for i := 0; i < 17; i++ {
			c.Unsubscribe(fmt.Sprintf("svc-%d", i))
		}
		close(callerDone)
	}()
	time.Sleep(200 * time.Millisecond)
	// the stream comes back: the client resubscribes (this also empties the queues)
	resubDone := make(chan struct{})
	stop := make(chan struct{})
	defer close(stop)
	go func() {
		c.resubscribe(govcNopStream{})
		close(resubDone)
		c.loopSend(govcNopStream{}, stop) // what run() does next
	}()
	select {
	case <-resubDone:
	case <-time.After(2 * time.Second):
		t.Fatalf("REPLAY-VIOLATION deadlock: the 17th pending Subscribe blocks on the 16-entry queue while holding the client's lock, and resubscribe (the only code that drains the queue once a stream is up) waits for that lock for ever")
	}
	select {
	case <-callerDone:
	case <-time.After(2 * time.Second):
		t.Fatalf("REPLAY-VIOLATION the caller of Subscribe/Unsubscribe is still blocked 2 s after the stream came back")
	}
}
`
	return "config", "TestGovcReplaySubscribeBlocksUnderLock", src, true
}
