#!/usr/bin/env python3
"""bisect_goal.py file.smt2 : tests each top-level conjunct of the negated goal separately."""
import sys, subprocess, re
src = open(sys.argv[1]).read()
lines = src.rstrip().split('\n')
# find last "(assert (not" line
idx = max(i for i,l in enumerate(lines) if l.startswith('(assert (not '))
goal = lines[idx][len('(assert (not '):-2]
def split_and(t):
    t = t.strip()
    if not t.startswith('(and '): return [t]
    body = t[5:-1]; out=[]; depth=0; start=None
    for i,c in enumerate(body):
        if c=='(':
            if depth==0 and start is None: start=i
            depth+=1
        elif c==')':
            depth-=1
            if depth==0 and start is not None:
                out.append(body[start:i+1]); start=None
        elif c not in ' ' and depth==0 and start is None:
            start=i
        elif c==' ' and depth==0 and start is not None and body[start]!='(':
            out.append(body[start:i]); start=None
    if start is not None: out.append(body[start:])
    res=[]
    for o in out: res += split_and(o)
    return res
parts = split_and(goal)
base = '\n'.join(lines[:idx])
for p in parts:
    q = base + '\n(assert (not ' + p + '))\n(check-sat)\n'
    open('/var/tmp/_bis.smt2','w').write(q)
    r = subprocess.run(['z3-new','-t:8000','/var/tmp/_bis.smt2'],capture_output=True,text=True).stdout.split('\n')[0]
    print(r, '<=', p[:220])
