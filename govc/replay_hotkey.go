package main

import "strings"

func init() {
	replayGens["hotkey.(*Collector).evictStale"] = replayEvictStaleOrder
}

// Two report entries whose last-update minutes differ (a collect round that straddled a minute
// boundary): only the older one is halved and ends up behind... in front of a hotter key.
func replayEvictStaleOrder(rc *ReplayCtx) (string, string, string, bool) {
	if !strings.Contains(rc.o.Name, "sorted") && !strings.Contains(rc.o.Name, "descending") && !strings.Contains(rc.o.Name, "loop1") {
		return "", "", "", false
	}
	src := `package hotkey

import "testing"

func TestGovcReplayEvictStaleOrder(t *testing.T) {
	old := nowInMinute
	defer func() { nowInMinute = old }()
	nowInMinute = func() int64 { return 101 }
	c := NewCollector(4)
	// the state a collect round leaves behind when the minute changes between two of its counter
	// updates: descending heat, last-update minutes 100 and 101
	c.keys = []HotKey{
		{Name: "a", Counter: &logrithmCounter{val: 4, lut: 100}},
		{Name: "b", Counter: &logrithmCounter{val: 3, lut: 101}},
	}
	c.evictStale()
	ks := c.HotKeys()
	for i := 1; i < len(ks); i++ {
		if ks[i-1].Counter.Value() < ks[i].Counter.Value() {
			t.Fatalf("REPLAY-VIOLATION the report is not in non-increasing heat order after evictStale: %s=%d listed before %s=%d",
				ks[i-1].Name, ks[i-1].Counter.Value(), ks[i].Name, ks[i].Counter.Value())
		}
	}
}
`
	return "proc/redis/hotkey", "TestGovcReplayEvictStaleOrder", src, true
}
