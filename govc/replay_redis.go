package main

import "strings"

func init() {
	replayGens["redis.(*scanRequest).Convert$2"] = replayScanEmptyReply
}

// replayScanEmptyReply: the failing index obligations of the SCAN reply hook are
// driven by the shortest array reply a backend can send ("*0\r\n").
func replayScanEmptyReply(rc *ReplayCtx) (string, string, string, bool) {
	if rc.o.Kind != "index" {
		return "", "", "", false
	}
	src := `package redis

import "testing"

func TestGovcReplayScanEmptyArrayReply(t *testing.T) {
	raw := newRawRequest(newStringArray("scan", "0"))
	sr, err := newScanRequest(raw)
	if err != nil {
		t.Fatal(err)
	}
	_, sreq := sr.Convert()
	defer func() {
		if r := recover(); r != nil {
			t.Fatalf("REPLAY-VIOLATION a SCAN reply '*0' from a backend panics the proxy in the reply hook: %v", r)
		}
	}()
	sreq.SetResponse(&RespValue{Type: Array, Array: []RespValue{}})
}
`
	return "proc/redis", "TestGovcReplayScanEmptyArrayReply", src, true
}

func init() {
	replayGens["redis.(*upstream).handleRedirection"] = replayRedirectionShort
	replayGens["redis.parseClusterNodes"] = func(rc *ReplayCtx) (string, string, string, bool) {
		if strings.Contains(rc.o.Name, "only-a-refusable-line") {
			return replayClusterNodesSlotlessMaster(rc)
		}
		return replayClusterNodesNilMaster(rc)
	}
	replayGens["redis.parseClusterNodesSlot"] = replayClusterNodesSlotRange
}

// a MOVED/ASK error with fewer than three fields
func replayRedirectionShort(rc *ReplayCtx) (string, string, string, bool) {
	if rc.o.Kind != "index" {
		return "", "", "", false
	}
	src := `package redis

import "testing"

func TestGovcReplayShortRedirection(t *testing.T) {
	u := newTestUpstream(nil)
	req := newSimpleRequest(newStringArray("get", "a"))
	defer func() {
		if r := recover(); r != nil {
			t.Fatalf("REPLAY-VIOLATION the backend reply '-MOVED 1' panics the proxy in handleRedirection: %v", r)
		}
	}()
	u.handleRedirection(req, newError("MOVED 1"))
}
`
	return "proc/redis", "TestGovcReplayShortRedirection", src, true
}

// a replica line whose master id does not occur in the CLUSTER NODES reply
func replayClusterNodesNilMaster(rc *ReplayCtx) (string, string, string, bool) {
	if rc.o.Kind != "nil-deref" {
		return "", "", "", false
	}
	src := `package redis

import "testing"

func TestGovcReplayClusterNodesUnknownMaster(t *testing.T) {
	defer func() {
		if r := recover(); r != nil {
			t.Fatalf("REPLAY-VIOLATION a CLUSTER NODES reply with a replica of an unlisted master panics the proxy: %v", r)
		}
	}()
	parseClusterNodes("aaaa 127.0.0.1:7001@17001 slave ffff 0 0 1 connected\n")
}
`
	return "proc/redis", "TestGovcReplayClusterNodesUnknownMaster", src, true
}

// a master that owns no slot (a node just added to the cluster, or one whose slots were all moved away)
func replayClusterNodesSlotlessMaster(rc *ReplayCtx) (string, string, string, bool) {
	src := `package redis

import "testing"

func TestGovcReplayClusterNodesSlotlessMaster(t *testing.T) {
	reply := "aaaa 127.0.0.1:7001@17001 master - 0 0 1 connected 0-16383\n" +
		"bbbb 127.0.0.1:7002@17002 master - 0 0 2 connected\n"
	insts, err := parseClusterNodes(reply)
	if err != nil {
		t.Fatalf("REPLAY-VIOLATION a CLUSTER NODES reply that lists a master without slots (every line has its eight fields and a host:port address) is refused as a whole: %v; every slots refresh fails while such a node is in the cluster, so routing never follows a changed layout", err)
	}
	if insts["aaaa"] == nil || len(insts["aaaa"].Slots) != 16384 {
		t.Fatalf("REPLAY-VIOLATION the slots of the other master were lost")
	}
}
`
	return "proc/redis", "TestGovcReplayClusterNodesSlotlessMaster", src, true
}

// a slot range far beyond the 16384 slots of Redis Cluster
func replayClusterNodesSlotRange(rc *ReplayCtx) (string, string, string, bool) {
	if rc.o.Kind != "overflow" && rc.o.Kind != "alloc-bound" && rc.o.Kind != "loop-back" && rc.o.Kind != "post" {
		return "", "", "", false
	}
	src := `package redis

import "testing"

func TestGovcReplayClusterNodesSlotRange(t *testing.T) {
	slots, err := parseClusterNodesSlot([]string{"0-20000000"})
	if err == nil && len(slots) > 16384 {
		t.Fatalf("REPLAY-VIOLATION the slot segment '0-20000000' of a CLUSTER NODES reply makes the proxy materialise %d slot numbers (Redis Cluster has 16384); the amount is chosen by the peer, '0-9223372036854775807' never terminates", len(slots))
	}
}
`
	return "proc/redis", "TestGovcReplayClusterNodesSlotRange", src, true
}

func init() {
	replayGens["redis.(*compressFilter).Compress"] = replayCompressTwice
}

// the compression filter applied twice to the same request (a redirected write) and read back once
func replayCompressTwice(rc *ReplayCtx) (string, string, string, bool) {
	if !containsAny(rc.o.Name, "already-compressed") {
		return "", "", "", false
	}
	src := `package redis

import (
	"bytes"
	"testing"

	"github.com/samaritan-proxy/samaritan/pb/config/protocol"
	redispb "github.com/samaritan-proxy/samaritan/pb/config/protocol/redis"
	"github.com/samaritan-proxy/samaritan/pb/config/service"
)

func TestGovcReplayCompressTwice(t *testing.T) {
	cfg := newConfig(&service.Config{ProtocolOptions: &service.Config_RedisOption{RedisOption: &protocol.RedisOption{
		Compression: &redispb.Compression{Enable: true, Threshold: 32, Algorithm: redispb.Compression_SNAPPY}}}})
	f := newCompressFilter(cfg).(*compressFilter)
	val := bytes.Repeat([]byte("0"), 1024)
	orig := append([]byte{}, val...)
	req := newSimpleRequest(newByteArray([]byte("set"), []byte("k"), val))
	f.Do("set", req) // first attempt
	f.Do("set", req) // the same request written again after MOVED / ASK
	stored := append([]byte{}, req.Body().Array[2].Text...)
	reply := newBulkBytes(stored)
	f.Decompress(reply)
	if !bytes.Equal(reply.Text, orig) {
		t.Fatalf("REPLAY-VIOLATION a 1024-byte value passed through the compression filter twice (redirected write) is stored as %d bytes and reads back as %d bytes that differ from the value written", len(stored), len(reply.Text))
	}
}
`
	return "proc/redis", "TestGovcReplayCompressTwice", src, true
}

func containsAny(s string, subs ...string) bool {
	for _, x := range subs {
		if len(x) > 0 && len(s) >= len(x) {
			for i := 0; i+len(x) <= len(s); i++ {
				if s[i:i+len(x)] == x {
					return true
				}
			}
		}
	}
	return false
}

func init() {
	replayGens["redis.(*client).loopWrite"] = replayLoopWriteQuit
}

// the backend writer sees quit while it waits to enqueue the request it has just written
func replayLoopWriteQuit(rc *ReplayCtx) (string, string, string, bool) {
	if rc.o.Kind != "token" {
		return "", "", "", false
	}
	src := `package redis

import (
	"io"
	"io/ioutil"
	"net"
	"testing"
	"time"
)

func TestGovcReplayLoopWriteQuit(t *testing.T) {
	lis, err := net.Listen("tcp", "127.0.0.1:0")
	if err != nil {
		t.Skip(err)
	}
	defer lis.Close()
	go func() {
		conn, err := lis.Accept()
		if err == nil {
			io.Copy(ioutil.Discard, conn)
		}
	}()
	conn, err := net.Dial("tcp", lis.Addr().String())
	if err != nil {
		t.Skip(err)
	}
	defer conn.Close()
	c := newTestClient(t, conn, nil)
	// the answer queue of the connection is full (a slow backend)
	for len(c.processingReqs) < cap(c.processingReqs) {
		c.processingReqs <- newSimpleRequest(newStringArray("get", "x"))
	}
	req := newSimpleRequest(newStringArray("get", "a"))
	c.pendingReqs <- req
	done := make(chan struct{})
	go func() { c.loopWrite(); close(done) }()
	for i := 0; i < 200 && len(c.pendingReqs) > 0; i++ {
		time.Sleep(5 * time.Millisecond)
	}
	time.Sleep(50 * time.Millisecond) // loopWrite has written the request and waits to enqueue it
	close(c.quit)                     // the connection is being torn down
	select {
	case <-done:
	case <-time.After(2 * time.Second):
		t.Skip("loopWrite did not return")
	}
	c.drainRequests() // what Start does after the loops ended
	select {
	case <-req.done:
	case <-time.After(500 * time.Millisecond):
		t.Fatalf("REPLAY-VIOLATION the request taken from pendingReqs and already written to the backend is dropped when loopWrite returns on quit: it is in neither queue, drainRequests cannot see it, its client waits forever")
	}
}
`
	return "proc/redis", "TestGovcReplayLoopWriteQuit", src, true
}

func init() {
	replayGens["redis.(*upstream).getClient"] = replayGetClientStale
}

// a failed first connection attempt is answered from the cache for good
func replayGetClientStale(rc *ReplayCtx) (string, string, string, bool) {
	if rc.o.Kind != "post" {
		return "", "", "", false
	}
	src := `package redis

import (
	"net"
	"testing"
)

func TestGovcReplayGetClientStale(t *testing.T) {
	l, err := net.Listen("tcp", "127.0.0.1:0")
	if err != nil {
		t.Skip(err)
	}
	addr := l.Addr().String()
	l.Close() // the backend is down
	u := newTestUpstream(nil)
	if _, err := u.getClient(addr); err == nil {
		t.Skip("port still reachable")
	}
	l2, err := net.Listen("tcp", addr) // the backend is reachable again on the same address
	if err != nil {
		t.Skip(err)
	}
	defer l2.Close()
	go func() {
		for {
			c, err := l2.Accept()
			if err != nil {
				return
			}
			defer c.Close()
		}
	}()
	c, err := u.getClient(addr)
	if err != nil {
		t.Fatalf("REPLAY-VIOLATION the backend %s is reachable again but getClient still answers with the cached result of the first attempt without dialling: %v", addr, err)
	}
	c.Stop()
}
`
	return "proc/redis", "TestGovcReplayGetClientStale", src, true
}

func init() {
	replayGens["redis.newError"] = replayErrorReplyLineBreak
}

// an error reply built from client-controlled text containing CR LF is written as more than one frame
func replayErrorReplyLineBreak(rc *ReplayCtx) (string, string, string, bool) {
	if rc.o.Kind != "post" || !strings.Contains(rc.o.Name, "one-line") {
		return "", "", "", false
	}
	src := `package redis

import (
	"bytes"
	"io"
	"testing"
)

func TestGovcReplayErrorReplyLineBreak(t *testing.T) {
	// what handleRequest answers to the unknown command "foo\r\nbar"
	reply := newError("ERR unsupported command 'foo\r\nbar'")
	var wire bytes.Buffer
	enc := newEncoder(&wire, 4096)
	if err := enc.Encode(reply); err != nil {
		t.Skip(err)
	}
	enc.Flush()
	dec := newDecoder(bytes.NewReader(wire.Bytes()), 4096)
	frames := 0
	for {
		_, err := dec.Decode()
		if err == io.EOF {
			break
		}
		frames++
		if err != nil || frames > 4 {
			break
		}
	}
	if frames != 1 {
		t.Fatalf("REPLAY-VIOLATION one error reply is read by the client as %d frames (%q): a command name containing CR LF desynchronises the reply stream", frames, wire.String())
	}
}
`
	return "proc/redis", "TestGovcReplayErrorReplyLineBreak", src, true
}

func init() {
	replayGens["redis.(*decoder).decode"] = replayDecoderDepth
	replayGens["redis.(*decoder).decodeResp"] = replayDecoderDepth
	replayGens["redis.(*decoder).decodeArray"] = replayDecoderDepth
}

// arbitrarily deep array nesting drives the recursive decoder as deep as the peer wishes
func replayDecoderDepth(rc *ReplayCtx) (string, string, string, bool) {
	if rc.o.Kind != "recursion" {
		return "", "", "", false
	}
	src := `package redis

import (
	"bytes"
	"runtime/debug"
	"testing"
)

func TestGovcReplayDecoderDepth(t *testing.T) {
	// 4 bytes of input per nesting level; the stack limit is lowered from 1 GB to 32 MB so that the
	// overflow (a fatal error that kills the process, it cannot be recovered) shows after 2 MB of input
	debug.SetMaxStack(32 << 20)
	depth := 500000
	in := bytes.Repeat([]byte("*1\r\n"), depth)
	in = append(in, []byte(":1\r\n")...)
	dec := newDecoder(bytes.NewReader(in), 4096)
	v, err := dec.Decode()
	if err == nil {
		n := 0
		for v != nil && v.Type == Array && len(v.Array) == 1 {
			v = &v.Array[0]
			n++
		}
		t.Fatalf("REPLAY-VIOLATION the decoder followed %d levels of array nesting chosen by the peer (recursion depth, stack and memory use are not bounded by any protocol limit)", n)
	}
}
`
	return "proc/redis", "TestGovcReplayDecoderDepth", src, true
}
