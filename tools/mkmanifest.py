#!/usr/bin/env python3
"""Regenerates /verif/MANIFEST.json from the table below (kept valid at all times)."""
import json, subprocess, os
V = '/verif'
props = [json.loads(l) for l in open(f'{V}/properties.jsonl')]
ids = [p['id'] for p in props]

# id -> (design_ref, claim text, level_note)
claimed = {}
exec(open(f'{V}/tools/claims.py').read())

hooks_commits = subprocess.run(['git','-C','/repo','log','--format=%h %s'],capture_output=True,text=True).stdout.splitlines()
hook_commits = [l.split()[0] for l in hooks_commits if l.split(' ',1)[1].startswith('verif:')]

checks = []
for pid in ids:
    if pid not in claimed: continue
    c = claimed[pid]
    checks.append({
        "property_id": pid,
        "quick_cmd": f"./check {pid} --tier quick",
        "thorough_cmd": f"./check {pid} --tier thorough",
        "evidence_file": f"/verif/evidence/{pid}.json",
        "replay_cmd_template": "cat {path}",
        "engine": "govc",
        "level_claimed": {"category": "proof", "text": c['text'], "design_ref": c['ref']},
        "level_note": c['note'],
        "technique": c.get('technique', "contract-based deductive verification: weakest-precondition VCs generated from go/ssa of the real code, discharged by z3/cvc5"),
    })
na = [{"property_id": pid, "reason": not_applicable.get(pid, "check not built yet (engine under construction); will be claimed once its obligations discharge")} for pid in ids if pid not in claimed]
m = {
 "version": 1,
 "setup_cmd": "cd /verif/govc && GOFLAGS=-mod=mod GOPROXY=off GOSUMDB=off GOTOOLCHAIN=local go build -o /verif/bin/govc . && mkdir -p /verif/replays /verif/evidence",
 "hooks": {"guard": "verif", "enable": "go/packages load of /repo with -tags=verif (contract files zz_contracts_verif.go are comment-only; they compile to nothing)",
           "baseline_off_cmd": "cd /repo && GOFLAGS=-mod=mod GOPROXY=off GOSUMDB=off go test -json -vet=off -count=1 -timeout 25m ./...",
           "source_commits": hook_commits, "add_only": True},
 "engines": [{"name": "govc", "path": "/verif/govc", "serves_properties": [c['property_id'] for c in checks],
              "kind_free_text": "deductive verifier for Go written for this task: contracts as //@ comments in /repo/**/zz_contracts_verif.go (+ /verif/spec/*.gospec for spec functions, lemmas and trusted stdlib contracts); VC generation over go/ssa (passive form, loops cut at invariants, modular calls); z3 5.1 / z3 4.8 / cvc5 raced per obligation; counter-models replayed on the real code through go test -overlay"}],
 "checks": checks,
 "notes": "See DESIGN.md. Known findings and repaired defects: /verif/known_findings.txt. Baselines of discharged obligations: /verif/baseline/<id>.json.",
 "not_applicable": na,
}
json.dump(m, open(f'{V}/MANIFEST.json','w'), indent=1)
print("claimed:", [c['property_id'] for c in checks])
