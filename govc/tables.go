package main

type tableResult struct {
	Name   string
	OK     bool
	Detail string
}

func runTableChecks(prog *Program, prop string) []tableResult { return nil }
