#!/usr/bin/env python3
"""unsat_core.py file.smt2: prints the assertions in z3's unsat core."""
import sys, subprocess, re
lines = open(sys.argv[1]).read().split('\n')
out=[]; names={}
n=0
for l in lines:
    if l.startswith('(assert ') and '(get-model' not in l:
        n+=1; nm=f"a{n}"; names[nm]=l
        out.append(f"(assert (! {l[8:-1]} :named {nm}))")
    elif l.startswith('(get-model') or l.startswith('(check-sat'):
        continue
    elif l.startswith('(set-option :produce-models'):
        out.append(l); out.append('(set-option :produce-unsat-cores true)')
    else: out.append(l)
out.append('(check-sat)'); out.append('(get-unsat-core)')
open('/var/tmp/_core.smt2','w').write('\n'.join(out))
r=subprocess.run(['z3-new','-t:20000','/var/tmp/_core.smt2'],capture_output=True,text=True).stdout
print(r.split('\n')[0])
m=re.search(r'\(([a0-9 ]+)\)', r)
if m:
    for nm in m.group(1).split():
        print(nm, names[nm][:600])
