package main

import (
	"fmt"
	"os"
	"go/token"
	"go/types"
	"strings"

	"golang.org/x/tools/go/ssa"
)

// external functions (and interface methods) considered free of effects on
// any modelled heap: results are havocked, heaps are kept. Listed in evidence.
var purePrefixes = []string{
	"strconv.", "strings.", "bytes.Index", "bytes.Equal", "bytes.ToLower", "bytes.HasPrefix", "bytes.Contains", "bytes.NewBuffer", "bytes.NewReader",
	"errors.", "fmt.Sprintf", "fmt.Errorf", "fmt.Sprint", "time.", "(time.", "(*time.", "math/rand.", "(*math/rand.", "os.Get",
	"(*github.com/kirk91/stats.", "(github.com/kirk91/stats.", "(*github.com/samaritan-proxy/samaritan/stats.",
	"(*go.uber.org/atomic.", "(*sync.WaitGroup).", "(*sync.Once).", "(*sync.Mutex).", "(*sync.RWMutex).", "(*sync.Pool).", "(*sync/atomic.Value).", "(*sync.Map).",
	"(github.com/samaritan-proxy/samaritan/proc/internal/log.Logger).", "github.com/samaritan-proxy/samaritan/logger.",
	"(*github.com/samaritan-proxy/samaritan/proc/internal/log.", "(error).Error", "(net.Conn).RemoteAddr", "(net.Conn).LocalAddr", "(net.Addr).String", "(net.Listener).Addr",
	"(net.Conn).Close", "(net.Conn).SetReadDeadline", "(net.Conn).SetWriteDeadline", "(net.Conn).SetDeadline", "(net.Listener).Close",
	"(*github.com/samaritan-proxy/samaritan/pb/", "(github.com/samaritan-proxy/samaritan/pb/", "github.com/samaritan-proxy/samaritan/pb/",
	"(*bytes.Buffer).", "(*bytes.Reader).", "(*bufio.Writer).", "sort.Search", "encoding/json.Marshal", "(context.Context).",
}

func isPureExternal(name string) bool {
	for _, p := range purePrefixes {
		if strings.HasPrefix(name, p) {
			return true
		}
	}
	return false
}

func (vc *VC) calleeKey(c *ssa.CallCommon) (key string, fn *ssa.Function, display string) {
	if c.IsInvoke() {
		it := c.Value.Type()
		name := "(" + types.TypeString(it, nil) + ")." + c.Method.Name()
		return name, nil, name
	}
	fn = c.StaticCallee()
	if fn == nil {
		// call through a package-level function variable: contracts may be attached to the variable
		if ld, ok := c.Value.(*ssa.UnOp); ok && ld.Op == token.MUL {
			if g, ok := ld.X.(*ssa.Global); ok {
				return g.Pkg.Pkg.Path() + "." + g.Name(), nil, "var " + g.Name()
			}
			// call through a function-typed struct field
			if fa, ok := ld.X.(*ssa.FieldAddr); ok {
				st := fa.X.Type().Underlying().(*types.Pointer).Elem()
				if n, ok := st.(*types.Named); ok {
					k := "field:" + n.Obj().Name() + "." + st.Underlying().(*types.Struct).Field(fa.Field).Name()
					return k, nil, k
				}
			}
		}
		// call of a value of a named function type: a type contract may be attached to the type
		if nt, ok := c.Value.Type().(*types.Named); ok && nt.Obj().Pkg() != nil {
			if _, isSig := nt.Underlying().(*types.Signature); isSig {
				k := nt.Obj().Pkg().Path() + ".functype:" + nt.Obj().Name()
				return k, nil, "functype:" + nt.Obj().Name()
			}
		}
		return "", nil, "dynamic call"
	}
	if fn.Pkg != nil && strings.HasPrefix(fn.Pkg.Pkg.Path(), vc.prog.module) {
		return fn.Pkg.Pkg.Path() + "." + funcRelName(fn), fn, funcRelName(fn)
	}
	if fn.Parent() != nil {
		p := fn
		for p.Parent() != nil {
			p = p.Parent()
		}
		if p.Pkg != nil && strings.HasPrefix(p.Pkg.Pkg.Path(), vc.prog.module) {
			return p.Pkg.Pkg.Path() + "." + funcRelName(fn), fn, funcRelName(fn)
		}
	}
	s := fn.String()
	// instantiated generics / wrappers keep their String()
	return s, fn, s
}

func (vc *VC) lookupContract(key string) *FuncContract {
	if fc, ok := vc.prog.cs.Funcs[key]; ok {
		return fc
	}
	// interface method of a repo package written with the short type name
	if strings.HasPrefix(key, "(") {
		i := strings.Index(key, ").")
		tn := key[1:i]
		if j := strings.LastIndex(tn, "."); j >= 0 {
			pkg, short := tn[:j], tn[j+1:]
			if fc, ok := vc.prog.cs.Funcs[pkg+".("+short+")"+key[i+1:]]; ok {
				return fc
			}
		}
	}
	return nil
}

func (vc *VC) callMods(c *ssa.CallCommon, li *loopInfo) {
	if b, ok := c.Value.(*ssa.Builtin); ok {
		switch b.Name() {
		case "append", "copy":
			if len(c.Args) > 0 {
				if s, ok := c.Args[0].Type().Underlying().(*types.Slice); ok {
					vc.modKeysOfElem(s.Elem(), li.mods)
				}
			}
		case "delete":
			li.mods["#map"] = true
			if len(c.Args) > 0 {
				vc.noteMapTarget(li, c.Args[0])
			}
		case "close":
			li.mods["#closed"] = true
			vc.heapKeySort("#closed", types.Typ[types.Bool])
		}
		return
	}
	key, cfn, disp := vc.calleeKey(c)
	fc := vc.lookupContract(key)
	if fc == nil && cfn != nil {
		fc = vc.lookupContract(cfn.String())
	}
	if fc != nil {
		if !fc.HasMod {
			li.modAll = true
			return
		}
		for _, m := range fc.Modifies {
			if m == "all" {
				li.modAll = true
			}
		}
		if li.modAll {
			// ghost variables named next to "all" are still recorded: owned ghosts survive a general
			// havoc and have to be havocked by name at the loop head
			for _, m := range fc.Modifies {
				if _, ok := vc.prog.cs.Ghosts[m]; ok {
					li.mods["#ghost."+m] = true
				}
			}
			return
		}
		// conservative: havoc every key named by the callee's modifies targets
		for _, m := range fc.Modifies {
			ks := vc.modTargetKeys(fc, m)
			if len(ks) == 0 && m != "nothing" {
				// a frame target the loop summary cannot resolve to heap keys: assume the worst
				li.modAll = true
			}
			for _, k := range ks {
				li.mods[k] = true
				if k == "#map" {
					li.mapOther = true
				}
			}
		}
		return
	}
	if key != "" && isPureExternal(key) {
		return
	}
	if cfn != nil && vc.isLeafGetter(cfn) {
		return
	}
	_ = disp
	li.modAll = true
}

func (vc *VC) modKeysOfElem(elem types.Type, mods map[string]bool) {
	if st, ok := elem.Underlying().(*types.Struct); ok {
		for i := 0; i < st.NumFields(); i++ {
			ft := st.Field(i).Type()
			if !isStruct(ft) && !isArray(ft) {
				mods[fieldKey(elem, i)] = true
				vc.heapKeySort(fieldKey(elem, i), ft)
			}
		}
		return
	}
	mods[elemKey(elem)] = true
	vc.heapKeySort(elemKey(elem), elem)
}

func (vc *VC) call(x *ssa.Call, st *State) {
	tv := vc.doCall(x.Common(), x, st, x.Pos())
	if tv != nil {
		vc.vals[x] = *tv
	}
	vc.prevRes = tv
	if vc.fc != nil && vc.inlineDepth == 0 {
		key, fn, _ := vc.calleeKey(x.Common())
		// hints placed after a call may speak about what it returned: "lastresult"
		if tv != nil {
			vc.lastResult = tv
		}
		vc.hintsAtCall("after:", key, fn, st)
		vc.lastResult = nil
	}
	vc.callPost[x] = st.clone()
}

// doCall handles a call; v (may be nil for go/defer) is the result value.
func (vc *VC) doCall(c *ssa.CallCommon, v ssa.Value, st *State, pos token.Pos) *TV {
	if b, ok := c.Value.(*ssa.Builtin); ok {
		return vc.builtin(b, c, v, st, pos)
	}
	key, fn, disp := vc.calleeKey(c)
	var args []TV
	if c.IsInvoke() {
		recv := vc.val(c.Value)
		vc.nilObl(c.Value, not(eq(sx("ityp", recv.S), "0")), pos)
		args = append(args, recv)
	}
	for _, a := range c.Args {
		args = append(args, vc.val(a))
	}
	if vc.fc != nil && vc.inlineDepth == 0 {
		vc.hintArgs = args
		vc.hintsAtCall("before:", key, fn, st)
		vc.hintArgs = nil
		for i, cp := range vc.fc.CallPres {
			isDyn := cp.Callee == "dynamic" && fn == nil && !c.IsInvoke() && (key == "" || strings.Contains(key, "functype:"))
			if !isDyn && (cp.Callee == "dynamic" || (!strings.Contains(key, cp.Callee) && !(fn != nil && strings.Contains(fn.String(), cp.Callee)))) {
				continue
			}
			env := vc.newEnv(st, vc.entrySt)
			if isDyn {
				// callpre dynamic: the called function value is visible as "callee"
				env.vars["callee"] = vc.val(c.Value)
			}
			for j, a := range args {
				env.vars[fmt.Sprintf("arg%d", j)] = a
			}
			// prevresult: what the call executed just before this one returned (same block or a
			// single-predecessor chain of blocks: nothing else was called in between on any path)
			if vc.prevRes != nil {
				env.vars["prevresult"] = *vc.prevRes
				for k, t := range vc.prevRes.Tup {
					env.vars[fmt.Sprintf("prevresult%d", k)] = t
				}
			}
			label := cp.C.Label
			if label == "" {
				label = fmt.Sprintf("callpre%d", i)
			}
			vc.oblige("callpre", cp.Callee+":"+label, vc.trGoal(cp.C.E, env), pos)
			vc.callPreHit[i]++
		}
	}
	vc.tokTransfers(key, fn, st, pos)
	if h := vc.specialCall(key, c, args, v, st, pos); h != nil {
		return h
	}
	fc := vc.lookupContract(key)
	if fc == nil && fn != nil {
		fc = vc.lookupContract(fn.String())
	}
	if fc != nil {
		return vc.applyContract(fc, fn, c, args, v, st, pos)
	}
	if key != "" && isPureExternal(key) {
		vc.assumeNote("effect-free external (results unconstrained): " + pureGroup(key))
		return vc.havocResult(v, c, st)
	}
	if fn != nil && vc.isLeafGetter(fn) && vc.inlineDepth < 3 {
		return vc.inlineCall(fn, args, v, st)
	}
	// a function of this module without a contract: modular verification does not look inside. The call
	// is recorded (trivially discharged) so that the baseline knows which such calls existed; a new one
	// in a function under contract is reported by the check (its effects are outside the proof)
	if fn != nil && fn.Pkg != nil && strings.HasPrefix(fn.Pkg.Pkg.Path(), vc.prog.module) && vc.inlineDepth == 0 && vc.fc != nil {
		root := fn
		for root.Parent() != nil {
			root = root.Parent()
		}
		if root != vc.fn && fn.Parent() == nil {
			vc.oblige("unverified-callee", funcRelName(fn), "true", pos)
		}
	}
	// unknown callee: everything may change
	if fn == nil && !c.IsInvoke() {
		vc.assumeNote("dynamic call in " + vc.name + ": all heaps havocked")
	}
	if os.Getenv("GOVC_DEBUG") != "" {
		fmt.Fprintf(os.Stderr, "HAVOC-ALL in %s: call to %s (key %q)\n", vc.name, disp, key)
	}
	vc.havocAll(st)
	return vc.havocResult(v, c, st)
}

func pureGroup(key string) string {
	for _, p := range purePrefixes {
		if strings.HasPrefix(key, p) {
			return p + "*"
		}
	}
	return key
}

func (vc *VC) havocResult(v ssa.Value, c *ssa.CallCommon, st *State) *TV {
	if v == nil {
		return nil
	}
	tv := vc.havocVal(v, st)
	return &tv
}

// specialCall: hooks for calls with engine-native semantics.
func (vc *VC) specialCall(key string, c *ssa.CallCommon, args []TV, v ssa.Value, st *State, pos token.Pos) *TV {
	// mutexes taken and released by the function (only tracked where the contract asks for it)
	if vc.fc != nil && (vc.fc.Flags["no-blocking-under-lock"] || vc.fc.Flags["track-locks"]) && len(args) > 0 {
		B := types.Typ[types.Bool]
		switch key {
		case "(*sync.Mutex).Lock", "(*sync.RWMutex).Lock", "(*sync.RWMutex).RLock":
			vc.heapKeySort("#held", B)
			vc.heapWrite(st, "#held", B, args[0].S, "true")
		case "(*sync.Mutex).Unlock", "(*sync.RWMutex).Unlock", "(*sync.RWMutex).RUnlock":
			vc.heapKeySort("#held", B)
			vc.heapWrite(st, "#held", B, args[0].S, "false")
		}
	}
	// sync.Once (only where the contract asks for it with "flag model-once"): Do(f) runs f unless the Once
	// has fired already, and has fired afterwards. f must be a closure made in this function whose
	// contract is applied under the condition that the Once had not fired; otherwise the call is left to
	// the default treatment
	if key == "(*sync.Once).Do" && vc.fc != nil && vc.fc.Flags["model-once"] && len(args) == 2 && len(c.Args) == 2 && vc.cur != nil {
		mc, ok := c.Args[1].(*ssa.MakeClosure)
		if !ok {
			return nil
		}
		fn2, _ := mc.Fn.(*ssa.Function)
		if fn2 == nil {
			return nil
		}
		k2, _, _ := vc.calleeKey(&ssa.CallCommon{Value: mc})
		fc2 := vc.lookupContract(k2)
		if fc2 == nil {
			fc2 = vc.lookupContract(fn2.String())
		}
		if fc2 == nil {
			return nil
		}
		B := types.Typ[types.Bool]
		vc.heapKeySort("#once", B)
		done := vc.define("oncefired", "Bool", vc.heapRead(st, "#once", B, args[0].S))
		st0 := st.clone()
		oldGuard := vc.reach[vc.cur.Index]
		vc.reach[vc.cur.Index] = and(oldGuard, not(done))
		vc.applyContract(fc2, fn2, &ssa.CallCommon{Value: mc}, nil, nil, st, pos)
		vc.reach[vc.cur.Index] = oldGuard
		keys := map[string]bool{}
		for k := range st.heap {
			keys[k] = true
		}
		for k := range st0.heap {
			keys[k] = true
		}
		if st.epoch != st0.epoch {
			for k := range vc.heapSort {
				keys[k] = true
			}
		}
		for _, k := range sortedKeys(keys) {
			elem := vc.heapElem[k]
			a, b := vc.heapGet(st0, k, elem), vc.heapGet(st, k, elem)
			if a != b {
				st.heap[k] = vc.define("H_"+mangle(k), vc.heapSort[k], ite(done, a, b))
			}
		}
		if st.nextId != st0.nextId {
			st.nextId = vc.define("nextId", "Int", ite(done, st0.nextId, st.nextId))
		}
		vc.heapWrite(st, "#once", B, args[0].S, "true")
		return &TV{}
	}
	return nil
}

// ---------------------------------------------------------------------------
// contracts at call sites

func (vc *VC) contractParamNames(fc *FuncContract, fn *ssa.Function, nargs int) []string {
	if len(fc.Params) > 0 {
		return fc.Params
	}
	if fn != nil {
		var ns []string
		for _, p := range fn.Params {
			ns = append(ns, p.Name())
		}
		return ns
	}
	return nil
}

func (vc *VC) applyContract(fc *FuncContract, fn *ssa.Function, c *ssa.CallCommon, args []TV, v ssa.Value, st *State, pos token.Pos) *TV {
	names := vc.contractParamNames(fc, fn, len(args))
	pre := st.clone()
	env := &Env{vars: map[string]TV{}, st: pre, old: pre, loopVals: map[*ssa.Phi]TV{}, pkg: vc.pkg}
	if p := vc.prog.typesPkg(fc.Pkg); p != nil {
		env.pkg = p
	}
	for i, a := range args {
		if i < len(names) {
			env.vars[names[i]] = a
		}
		env.vars[fmt.Sprintf("arg%d", i)] = a
	}
	// bounded recursion: a call between two functions that both carry a measure must decrease it
	if vc.fc != nil && vc.fc.Measure != nil && fc.Measure != nil && vc.entrySt != nil {
		callee := vc.tr(fc.Measure, env)
		cenv := vc.newEnv(vc.entrySt, vc.entrySt)
		caller := vc.tr(vc.fc.Measure, cenv)
		I := types.Typ[types.Int]
		callee, caller = vc.coerceInt(callee, I), vc.coerceInt(caller, I)
		vc.oblige("recursion", "measure-decreases:"+fc.Name, and(vc.ar.le(ixInfo, vc.ar.ix(0), callee.S), vc.ar.lt(ixInfo, callee.S, caller.S)), pos)
	}
	if !c.IsInvoke() {
		env.argVals = map[string]ssa.Value{}
		for i, a := range c.Args {
			if i < len(names) {
				env.argVals[names[i]] = a
			}
		}
	}
	if fn != nil {
		for i, fv := range fn.FreeVars {
			if mc, ok := c.Value.(*ssa.MakeClosure); ok && i < len(mc.Bindings) {
				env.vars[fv.Name()] = vc.val(mc.Bindings[i])
				// a captured variable assigned once before the closure was made: its content is that
				// value whatever was called in between
				if al, ok := mc.Bindings[i].(*ssa.Alloc); ok && singleStoreBefore(al, mc) {
					if sv, ok := vc.constCellAt(al, mc); ok {
						if _, done := vc.vals[sv]; done || isConstLike(sv) {
							if env.derefConst == nil {
								env.derefConst = map[string]TV{}
							}
							tv := vc.val(sv)
							tv.T = al.Type().Underlying().(*types.Pointer).Elem()
							env.derefConst[fv.Name()] = tv
						}
					}
				}
			}
		}
	}
	for _, l := range fc.Lets {
		env.vars[l.Name] = vc.tr(l.E, env)
	}
	if fc.Extern {
		vc.assumeNote("trusted contract: " + fc.Name)
	}
	for i, r := range fc.Requires {
		label := r.Label
		if label == "" {
			label = fmt.Sprintf("requires%d", i)
		}
		vc.oblige("pre", fc.Name+":"+label, vc.trGoal(r.E, env), pos)
	}
	if vc.preOnly {
		return nil
	}
	// frame
	vc.applyModifies(fc, env, st)
	// results
	post := &Env{vars: env.vars, st: st, old: pre, loopVals: env.loopVals, pkg: env.pkg, argVals: env.argVals, derefConst: env.derefConst}
	var res *TV
	if v != nil {
		tv := vc.havocVal(v, st)
		res = &tv
		var sig *types.Signature
		if fn != nil {
			sig = fn.Signature
		} else {
			sig = c.Signature()
		}
		bind := func(i int, t TV) {
			if i < len(fc.Results) {
				post.vars[fc.Results[i]] = t
			} else if n := sig.Results().At(i).Name(); n != "" && n != "_" {
				post.vars[n] = t
			}
			post.vars[fmt.Sprintf("result%d", i)] = t
		}
		if len(tv.Tup) > 0 {
			for i, t := range tv.Tup {
				bind(i, t)
			}
		} else if sig.Results().Len() == 1 {
			bind(0, tv)
			post.vars["result"] = tv
		}
	}
	for _, e := range fc.Ensures {
		if e.Private {
			continue
		}
		kind := "assume"
		if fc.Extern {
			kind = "trusted"
		}
		vc.addFact(kind, imp(vc.guard(), vc.trBool(e.E, post)))
	}
	// ghost instrumentation: definitional updates of ghost variables performed by the call
	// (executed when the callee starts: everything but the ghosts being defined is read in the state
	// before the call, exactly as in the callee's own verification condition)
	if len(fc.GhostDefs) > 0 {
		gst := pre.clone()
		for _, m := range fc.Modifies {
			if _, ok := vc.prog.cs.Ghosts[m]; !ok {
				continue
			}
			for _, e := range fc.GhostDefs {
				if containsWord(e.Src, m) {
					k := "#ghost." + m
					if h, ok := st.heap[k]; ok {
						gst.heap[k] = h
					}
				}
			}
		}
		genv := &Env{vars: post.vars, st: gst, old: pre, loopVals: env.loopVals, pkg: env.pkg, argVals: env.argVals, derefConst: env.derefConst}
		for _, e := range fc.GhostDefs {
			vc.addFact("assume", imp(vc.guard(), vc.trBool(e.E, genv)))
		}
	}
	vc.tokCall(fc, fn, c, args, names, res, env, post, st, pos)
	return res
}

// modTargetKeys: heap keys a modifies target may touch (used for loop havoc).
func (vc *VC) modTargetKeys(fc *FuncContract, m string) []string {
	e, err := ParseExpr(m)
	if err != nil {
		return nil
	}
	pkg := vc.prog.typesPkg(fc.Pkg)
	if pkg == nil {
		pkg = vc.pkg
	}
	switch x := e.(type) {
	case *EIdent:
		if _, ok := vc.prog.cs.Ghosts[x.Name]; ok {
			return []string{"#ghost." + x.Name}
		}
	case *ECall:
		switch x.Fn {
		case "closed":
			vc.heapKeySort("#closed", types.Typ[types.Bool])
			return []string{"#closed"}
		case "sent":
			vc.fifoFn()
			return []string{"#fifo.sendn"}
		case "received":
			vc.fifoFn()
			return []string{"#fifo.recvn"}
		case "heap":
			return []string{vc.resolveHeapKey(x.Args[0])}
		case "mapof":
			// the content of a map: every map heap (conservative for a loop that calls the function)
			return []string{"#map"}
		}
	}
	// type-directed: evaluate in a throw-away environment to find the key
	var keys []string
	save := vc.unsupported
	tmp := &State{heap: map[string]string{}, epoch: -1, nextId: "0"}
	env := &Env{vars: map[string]TV{}, st: tmp, old: tmp, loopVals: map[*ssa.Phi]TV{}, pkg: pkg}
	fn := vc.prog.funcByKey(fc.Pkg + "." + fc.Name)
	if fn != nil {
		for _, p := range fn.Params {
			env.vars[p.Name()] = TV{T: p.Type(), S: "x"}
		}
	}
	keys = vc.modKeys(e, env)
	vc.unsupported = save
	return keys
}

func (vc *VC) modKeys(e Expr, env *Env) []string {
	switch x := e.(type) {
	case *ESel:
		a := vc.tr(x.X, env)
		t := a.T
		if p, ok := t.Underlying().(*types.Pointer); ok {
			t = p.Elem()
		}
		obj, path := lookupFieldAny(t, x.Name)
		if obj == nil {
			return nil
		}
		cur := a.T
		var key string
		for _, i := range path {
			if p, ok := cur.Underlying().(*types.Pointer); ok {
				cur = p.Elem()
			}
			st := cur.Underlying().(*types.Struct)
			key = fieldKey(cur, i)
			cur = st.Field(i).Type()
		}
		vc.heapKeySort(key, cur)
		return []string{key}
	case *ESlice:
		a := vc.tr(x.X, env)
		if s, ok := a.T.Underlying().(*types.Slice); ok {
			m := map[string]bool{}
			vc.modKeysOfElem(s.Elem(), m)
			return sortedKeys(m)
		}
	case *EIndex:
		a := vc.tr(x.X, env)
		switch u := a.T.Underlying().(type) {
		case *types.Slice:
			m := map[string]bool{}
			vc.modKeysOfElem(u.Elem(), m)
			return sortedKeys(m)
		case *types.Map:
			return []string{"#map"}
		}
	case *EUn:
		if x.Op == "*" {
			a := vc.tr(x.X, env)
			if p, ok := a.T.Underlying().(*types.Pointer); ok {
				m := map[string]bool{}
				if isStruct(p.Elem()) {
					vc.modKeysOfElem(p.Elem(), m)
				} else {
					m[cellKey(p.Elem())] = true
					vc.heapKeySort(cellKey(p.Elem()), p.Elem())
				}
				return sortedKeys(m)
			}
		}
	}
	return nil
}

// modRegion: per heap key, a predicate over a location variable l saying
// "l may be modified".
type modRegion struct {
	key  string
	pred func(l string) string
}

func (vc *VC) modRegions(fc *FuncContract, env *Env) (regions []modRegion, all bool) {
	ar := vc.ar
	for _, m := range fc.Modifies {
		if m == "all" {
			all = true
			continue
		}
		e, err := ParseExpr(m)
		if err != nil {
			vc.unsupportedf("modifies %q: %v", m, err)
			continue
		}
		switch x := e.(type) {
		case *EIdent:
			if g, ok := vc.prog.cs.Ghosts[x.Name]; ok {
				vc.heapKeySort("#ghost."+x.Name, vc.parseType(g.Type, env.pkg))
				regions = append(regions, modRegion{"#ghost." + x.Name, func(l string) string { return "true" }})
				continue
			}
		case *ECall:
			switch x.Fn {
			case "closed":
				a := vc.tr(x.Args[0], env)
				vc.heapKeySort("#closed", types.Typ[types.Bool])
				regions = append(regions, modRegion{"#closed", func(l string) string { return eq(l, a.S) }})
				continue
			case "sent", "received":
				// sent(ch) / received(ch): the send / receive counter of a tracked channel
				a := vc.tr(x.Args[0], env)
				vc.fifoFn()
				k := "#fifo.sendn"
				if x.Fn == "received" {
					k = "#fifo.recvn"
				}
				regions = append(regions, modRegion{k, func(l string) string { return eq(l, a.S) }})
				continue
			case "heap":
				regions = append(regions, modRegion{vc.resolveHeapKey(x.Args[0]), func(l string) string { return "true" }})
				continue
			case "mapof":
				a := vc.tr(x.Args[0], env)
				for _, k := range vc.mapKeysFor(a.T) {
					regions = append(regions, modRegion{k, func(l string) string { return eq(l, a.S) }})
				}
				continue
			}
		case *ESel:
			a := vc.tr(x.X, env)
			keys := vc.modKeys(e, env)
			// walk embedded path to find the struct location that holds the field
			loc := vc.fieldHolder(a, x.Name, env)
			for _, k := range keys {
				lc := loc
				regions = append(regions, modRegion{k, func(l string) string { return eq(l, lc) }})
			}
			continue
		case *ESlice:
			a := vc.tr(x.X, env)
			if _, ok := a.T.Underlying().(*types.Slice); ok {
				lo := ar.ix(0)
				hi := sx("slen", a.S)
				if x.Lo != nil {
					lo = vc.toIX(vc.coerceInt(vc.tr(x.Lo, env), nil))
				}
				if x.Hi != nil {
					hi = vc.toIX(vc.coerceInt(vc.tr(x.Hi, env), nil))
				}
				base, off := sx("sbase", a.S), sx("soff", a.S)
				for _, k := range vc.modKeys(e, env) {
					regions = append(regions, modRegion{k, func(l string) string {
						return and(sx("is_lelem", l), eq(sx("epar", l), base),
							ar.le(ixInfo, ar.ixadd(off, lo), sx("eidx", l)), ar.lt(ixInfo, sx("eidx", l), ar.ixadd(off, hi)))
					}})
				}
				continue
			}
		case *EIndex:
			a := vc.tr(x.X, env)
			if _, ok := a.T.Underlying().(*types.Slice); ok {
				i := vc.toIX(vc.coerceInt(vc.tr(x.I, env), nil))
				loc := sx("lelem", sx("sbase", a.S), ar.ixadd(sx("soff", a.S), i))
				for _, k := range vc.modKeys(e, env) {
					regions = append(regions, modRegion{k, func(l string) string { return eq(l, loc) }})
				}
				continue
			}
		case *EUn:
			if x.Op == "*" {
				a := vc.tr(x.X, env)
				for _, k := range vc.modKeys(e, env) {
					regions = append(regions, modRegion{k, func(l string) string { return eq(l, a.S) }})
				}
				continue
			}
		}
		vc.unsupportedf("modifies target %q", m)
	}
	return regions, all
}

// fieldHolder: location of the struct that directly contains field `name` reached from a.
func (vc *VC) fieldHolder(a TV, name string, env *Env) string {
	t := a.T
	if p, ok := t.Underlying().(*types.Pointer); ok {
		t = p.Elem()
	}
	_, path := lookupFieldAny(t, name)
	cur := a
	for _, i := range path[:max0(len(path)-1)] {
		cur = vc.fieldStep(cur, i, env)
	}
	return cur.S
}

func max0(n int) int {
	if n < 0 {
		return 0
	}
	return n
}

func (vc *VC) applyModifies(fc *FuncContract, env *Env, st *State) {
	if !fc.HasMod {
		vc.havocAll(st)
		return
	}
	regions, all := vc.modRegions(fc, env)
	if all {
		vc.havocAll(st)
		// owned ghost variables are only changed when listed explicitly next to "all"
		for _, r := range regions {
			if strings.HasPrefix(r.key, "#ghost.") {
				vc.havocKey(st, r.key)
			}
		}
		return
	}
	byKey := map[string][]modRegion{}
	for _, r := range regions {
		byKey[r.key] = append(byKey[r.key], r)
	}
	oldId := st.nextId
	newId := vc.freshConst("nextId", "Int")
	vc.addFact("assume", sx("<=", oldId, newId))
	for _, k := range sortedKeys(byKey) {
		elem := vc.heapElem[k]
		if elem == nil {
			vc.unsupportedf("modifies: unknown heap key %s", k)
			continue
		}
		old := vc.heapGet(st, k, elem)
		nw := vc.freshConst("H_"+mangle(k), vc.heapSort[k])
		var ps []string
		for _, r := range byKey[k] {
			ps = append(ps, r.pred("l!m"))
		}
		// callee may also write freshly allocated memory: irrelevant to the caller's known locations
		fwd := ""
		if vc.forwardFrames() {
			fwd = fmt.Sprintf(" :pattern ((select %s l!m))", old)
		}
		vc.assume(vc.guard(), fmt.Sprintf("(forall ((l!m Loc)) (! (=> (not %s) (= (select %s l!m) (select %s l!m))) :pattern ((select %s l!m))%s))", or(ps...), nw, old, nw, fwd))
		st.heap[k] = nw
		vc.closureFact(nw, k, newId, 1)
	}
	st.nextId = newId
}

// frameCheck: at a return, every heap key changed since entry must be covered
// by the function's own modifies clause.
func (vc *VC) frameCheck(st *State, pos token.Pos) {
	fc := vc.fc
	if fc == nil || !fc.HasMod {
		return
	}
	env := vc.newEnv(vc.entrySt, vc.entrySt)
	regions, all := vc.modRegions(fc, env)
	if all {
		return
	}
	if st.epoch != vc.entrySt.epoch {
		vc.oblige("frame", "all-heaps (unknown call havocked everything)", "false", pos)
		return
	}
	byKey := map[string][]modRegion{}
	for _, r := range regions {
		byKey[r.key] = append(byKey[r.key], r)
	}
	for _, k := range sortedKeys(st.heap) {
		if strings.HasPrefix(k, "#box") || strings.HasPrefix(k, "#iter") || k == tokKey || k == freshKey || k == "#polled" {
			// (#polled is the activation's own history of non-blocking polls: no caller can see it)
			continue
		}
		elem := vc.heapElem[k]
		if elem == nil {
			continue
		}
		entry := vc.heapGet(vc.entrySt, k, elem)
		if st.heap[k] == entry {
			continue
		}
		vc.oblige("frame", k, vc.frameCond(k, st.heap[k], byKey[k], false), pos)
	}
}

// frameCond: locations allocated before entry and outside the modifies regions hold their entry values in heap version h.
func (vc *VC) frameCond(k, h string, regs []modRegion, withPattern bool) string {
	entry := vc.heapGet(vc.entrySt, k, vc.heapElem[k])
	var ps []string
	for _, r := range regs {
		ps = append(ps, r.pred("l!f"))
	}
	body := fmt.Sprintf("(=> (and (< (rt l!f) %s) (not %s)) (= (select %s l!f) (select %s l!f)))", vc.entrySt.nextId, or(ps...), h, entry)
	if withPattern {
		return fmt.Sprintf("(forall ((l!f Loc)) (! %s :pattern ((select %s l!f))))", body, h)
	}
	return fmt.Sprintf("(forall ((l!f Loc)) %s)", body)
}

// loopFrameKeys: heap keys havocked by the loop for which an automatic frame invariant applies.
func (vc *VC) loopFrame(li *loopInfo) (keys []string, byKey map[string][]modRegion, ok bool) {
	fc := vc.fc
	if fc == nil || !fc.HasMod || li.modAll {
		return nil, nil, false
	}
	env := vc.newEnv(vc.entrySt, vc.entrySt)
	regions, all := vc.modRegions(fc, env)
	if all {
		return nil, nil, false
	}
	byKey = map[string][]modRegion{}
	for _, r := range regions {
		byKey[r.key] = append(byKey[r.key], r)
	}
	for _, k := range sortedKeys(li.mods) {
		if k == "#map" {
			for _, hk := range sortedKeys(vc.heapSort) {
				if strings.HasPrefix(hk, "#map.") {
					keys = append(keys, hk)
				}
			}
			continue
		}
		if (strings.HasPrefix(k, "#") && !strings.HasPrefix(k, "#ghost.") && !strings.HasPrefix(k, "#fifo.")) || vc.heapElem[k] == nil {
			continue
		}
		keys = append(keys, k)
	}
	return keys, byKey, true
}

// ---------------------------------------------------------------------------
// builtins

func (vc *VC) builtin(b *ssa.Builtin, c *ssa.CallCommon, v ssa.Value, st *State, pos token.Pos) *TV {
	ar := vc.ar
	ret := func(s string) *TV {
		if v == nil {
			return nil
		}
		tv := vc.defVal(v, s)
		return &tv
	}
	switch b.Name() {
	case "len", "cap":
		a := vc.val(c.Args[0])
		switch u := c.Args[0].Type().Underlying().(type) {
		case *types.Slice:
			if b.Name() == "len" {
				return ret(sx("slen", a.S))
			}
			return ret(sx("scap", a.S))
		case *types.Basic:
			return ret(sx("slen_", a.S))
		case *types.Map:
			env := vc.newEnv(st, vc.entrySt)
			r := ret(vc.mapLenTerm(a, u, env))
			vc.assume(vc.guard(), ar.le(ixInfo, ar.ix(0), r.S))
			vc.mapFactsG(st, a.S, u)
			return r
		case *types.Chan:
			I := types.Typ[types.Int]
			key := "#chlen"
			if b.Name() == "cap" {
				key = "#chcap"
			}
			// channel length observed now: any value within [0, cap]
			n := vc.freshConst("chlen", ar.IX())
			cp := vc.heapRead(st, "#chcap", I, a.S)
			if key == "#chcap" {
				return ret(cp)
			}
			vc.assume(vc.guard(), and(ar.le(ixInfo, ar.ix(0), n), ar.le(ixInfo, n, cp)))
			return ret(n)
		case *types.Pointer:
			if arr, ok := u.Elem().Underlying().(*types.Array); ok {
				return ret(ar.ix(arr.Len()))
			}
		case *types.Array:
			return ret(ar.ix(u.Len()))
		}
	case "append":
		return vc.appendCall(c, v, st, pos)
	case "copy":
		return vc.copyCall(c, v, st, pos)
	case "delete":
		vc.mapDelete(c, st, pos)
		return nil
	case "close":
		ch := vc.val(c.Args[0])
		B := types.Typ[types.Bool]
		// a channel field with a single close site in the whole module can only have been closed by an
		// earlier execution of this very statement: its closed bit is what it was at function entry
		if ld, ok := c.Args[0].(*ssa.UnOp); ok && ld.Op == token.MUL {
			if fa, ok := ld.X.(*ssa.FieldAddr); ok {
				pt := fa.X.Type().Underlying().(*types.Pointer).Elem()
				if vc.prog.singleCloseSite(fieldKey(pt, fa.Field)) && vc.loopContaining(vc.cur) == nil {
					vc.assumeNote("a channel field with a single close site in the module is not closed by anyone else")
					// (a channel made during this activation has not been closed at all yet)
					vc.assume(vc.guard(), eq(vc.heapRead(st, "#closed", B, ch.S),
						ite(sx("<", sx("rt", ch.S), vc.entrySt.nextId), vc.heapRead(vc.entrySt, "#closed", B, ch.S), "false")))
				}
			}
		}
		if ld, ok := c.Args[0].(*ssa.UnOp); ok && ld.Op == token.MUL {
			if fv, ok := ld.X.(*ssa.FreeVar); ok && vc.loopContaining(vc.cur) == nil && vc.localChanSingleClose(fv, c) {
				vc.assumeNote("a local channel captured by closures and closed by a single statement is not closed by anyone else")
				vc.assume(vc.guard(), eq(vc.heapRead(st, "#closed", B, ch.S), vc.heapRead(vc.entrySt, "#closed", B, ch.S)))
			}
		}
		// closing the completion latch of a request is what completes it: the token goes with it
		if vc.tokensOn() {
			if ld, ok := c.Args[0].(*ssa.UnOp); ok && ld.Op == token.MUL {
				if fa, ok := ld.X.(*ssa.FieldAddr); ok {
					pt := fa.X.Type().Underlying().(*types.Pointer).Elem()
					if nt, ok := pt.(*types.Named); ok {
						name := nt.Obj().Name() + "." + pt.Underlying().(*types.Struct).Field(fa.Field).Name()
						for _, tl := range vc.prog.cs.TokLatches {
							if tl == name {
								vc.tokConsume(st, vc.val(fa.X).S, "true", "close of the completion latch "+name, pos)
							}
						}
					}
				}
			}
		}
		vc.oblige("close-nil-chan", "", not(eq(ch.S, "lnil")), pos)
		vc.oblige("close-closed-chan", "", not(vc.heapRead(st, "#closed", B, ch.S)), pos)
		vc.heapWrite(st, "#closed", B, ch.S, "true")
		return nil
	case "print", "println":
		return nil
	case "min", "max":
		if len(c.Args) == 2 {
			a, bb := vc.val(c.Args[0]), vc.val(c.Args[1])
			if ii, ok := basicInt(a.T); ok {
				if b.Name() == "min" {
					return ret(ite(ar.le(ii, a.S, bb.S), a.S, bb.S))
				}
				return ret(ite(ar.le(ii, a.S, bb.S), bb.S, a.S))
			}
		}
	case "recover":
		vc.unsupportedf("recover")
	}
	vc.unsupportedf("builtin %s", b.Name())
	return vc.havocResult(v, c, st)
}

// bulkUpdate: new heap version for key where locations satisfying in(l) take val(l).
func (vc *VC) bulkUpdate(st *State, key string, elem types.Type, in func(l string) string, val func(l string) string) {
	old := vc.heapGet(st, key, elem)
	nw := vc.freshConst("H_"+mangle(key), vc.heapKeySort(key, elem))
	l := "l!u"
	fwd := ""
	if vc.forwardFrames() {
		fwd = fmt.Sprintf(" :pattern ((select %s %s))", old, l)
	}
	vc.assume(vc.guard(), fmt.Sprintf("(forall ((%s Loc)) (! (= (select %s %s) (ite %s %s (select %s %s))) :pattern ((select %s %s))%s))",
		l, nw, l, in(l), val(l), old, l, nw, l, fwd))
	st.heap[key] = nw
}

// elemFieldKeys enumerates (key, type) of the primitive cells of a slice element type.
func (vc *VC) elemCells(elem types.Type) (keys []string, ts []types.Type) {
	if st, ok := elem.Underlying().(*types.Struct); ok {
		for i := 0; i < st.NumFields(); i++ {
			ft := st.Field(i).Type()
			if isStruct(ft) || isArray(ft) {
				vc.unsupportedf("bulk update of nested aggregate field %s.%s", elem, st.Field(i).Name())
				continue
			}
			keys = append(keys, fieldKey(elem, i))
			ts = append(ts, ft)
		}
		return
	}
	return []string{elemKey(elem)}, []types.Type{elem}
}

func (vc *VC) appendCall(c *ssa.CallCommon, v ssa.Value, st *State, pos token.Pos) *TV {
	ar := vc.ar
	s := vc.val(c.Args[0])
	t := vc.val(c.Args[1])
	sl := c.Args[0].Type().Underlying().(*types.Slice)
	elem := sl.Elem()
	tIsStr := isString(c.Args[1].Type())
	tlen := sx("slen", t.S)
	if tIsStr {
		tlen = sx("slen_", t.S)
	}
	n := vc.define("applen", ar.IX(), ar.ixadd(sx("slen", s.S), tlen))
	inplace := vc.define("inplace", "Bool", ar.le(ixInfo, n, sx("scap", s.S)))
	newLoc := vc.alloc(st)
	newCap := vc.freshConst("appcap", ar.IX())
	vc.assume(vc.guard(), ar.le(ixInfo, n, newCap))
	r := vc.define("app", "Slice", ite(inplace,
		sx("mkslice", sx("sbase", s.S), sx("soff", s.S), n, sx("scap", s.S)),
		sx("mkslice", newLoc, ar.ix(0), n, newCap)))
	rb, ro := sx("sbase", r), sx("soff", r)
	keys, ts := vc.elemCells(elem)
	for i, k := range keys {
		kk, tt := k, ts[i]
		old := vc.heapGet(st, kk, tt)
		inNew := func(l string) string {
			return and(sx("is_lelem", l), eq(sx("epar", l), rb),
				ar.le(ixInfo, ar.ixadd(ro, sx("slen", s.S)), sx("eidx", l)), ar.lt(ixInfo, sx("eidx", l), ar.ixadd(ro, n)))
		}
		inCopied := func(l string) string {
			return and(not(inplace), sx("is_lelem", l), eq(sx("epar", l), rb),
				ar.le(ixInfo, ro, sx("eidx", l)), ar.lt(ixInfo, sx("eidx", l), ar.ixadd(ro, sx("slen", s.S))))
		}
		vc.bulkUpdate(st, kk, tt,
			func(l string) string { return or(inNew(l), inCopied(l)) },
			func(l string) string {
				var fromT string
				ti := ar.ixsub(ar.ixsub(sx("eidx", l), ro), sx("slen", s.S))
				if tIsStr {
					fromT = sx("sat_", t.S, ti)
				} else {
					fromT = sx("select", old, sx("lelem", sx("sbase", t.S), ar.ixadd(sx("soff", t.S), ti)))
				}
				fromS := sx("select", old, sx("lelem", sx("sbase", s.S), ar.ixadd(sx("soff", s.S), ar.ixsub(sx("eidx", l), ro))))
				return ite(inNew(l), fromT, fromS)
			})
	}
	if v == nil {
		return nil
	}
	tv := vc.setVal(v, r)
	return &tv
}

func (vc *VC) copyCall(c *ssa.CallCommon, v ssa.Value, st *State, pos token.Pos) *TV {
	ar := vc.ar
	d := vc.val(c.Args[0])
	s := vc.val(c.Args[1])
	sl := c.Args[0].Type().Underlying().(*types.Slice)
	elem := sl.Elem()
	srcStr := isString(c.Args[1].Type())
	slen := sx("slen", s.S)
	if srcStr {
		slen = sx("slen_", s.S)
	}
	n := vc.define("copyn", ar.IX(), ite(ar.le(ixInfo, sx("slen", d.S), slen), sx("slen", d.S), slen))
	db, do := sx("sbase", d.S), sx("soff", d.S)
	keys, ts := vc.elemCells(elem)
	for i, k := range keys {
		kk, tt := k, ts[i]
		old := vc.heapGet(st, kk, tt)
		vc.bulkUpdate(st, kk, tt,
			func(l string) string {
				return and(sx("is_lelem", l), eq(sx("epar", l), db), ar.le(ixInfo, do, sx("eidx", l)), ar.lt(ixInfo, sx("eidx", l), ar.ixadd(do, n)))
			},
			func(l string) string {
				i := ar.ixsub(sx("eidx", l), do)
				if srcStr {
					return sx("sat_", s.S, i)
				}
				return sx("select", old, sx("lelem", sx("sbase", s.S), ar.ixadd(sx("soff", s.S), i)))
			})
	}
	if v == nil {
		return nil
	}
	tv := vc.setVal(v, n)
	return &tv
}

// isLeafGetter: a repository function with one basic block that only reads
// fields / computes pure values (no calls, stores, allocation).
func (vc *VC) isLeafGetter(fn *ssa.Function) bool {
	if len(fn.Blocks) != 1 || fn.Pkg == nil || !strings.HasPrefix(fn.Pkg.Pkg.Path(), vc.prog.module) {
		return false
	}
	if len(fn.FreeVars) > 0 {
		return false
	}
	for _, ins := range fn.Blocks[0].Instrs {
		switch x := ins.(type) {
		case *ssa.DebugRef, *ssa.FieldAddr, *ssa.Field, *ssa.Return, *ssa.ChangeType, *ssa.BinOp, *ssa.Convert, *ssa.Slice, *ssa.IndexAddr:
		case *ssa.UnOp:
			if x.Op == token.ARROW {
				return false
			}
		default:
			return false
		}
	}
	return true
}

func (vc *VC) inlineCall(fn *ssa.Function, args []TV, v ssa.Value, st *State) *TV {
	vc.inlineDepth++
	defer func() { vc.inlineDepth-- }()
	for i, p := range fn.Params {
		if i < len(args) {
			vc.vals[p] = TV{T: p.Type(), S: args[i].S}
		}
	}
	var res *TV
	for _, ins := range fn.Blocks[0].Instrs {
		if r, ok := ins.(*ssa.Return); ok {
			if v == nil {
				return nil
			}
			if len(r.Results) == 1 {
				tv := vc.setVal(v, vc.val(r.Results[0]).S)
				res = &tv
			} else {
				tv := TV{T: v.Type()}
				for _, x := range r.Results {
					tv.Tup = append(tv.Tup, vc.val(x))
				}
				vc.vals[v] = tv
				res = &tv
			}
			break
		}
		vc.instr(ins, st)
	}
	return res
}

// resolveHeapKey: heap("RespValue.Text") names a heap key by (suffix of) its name.
func (vc *VC) resolveHeapKey(e Expr) string {
	name := e.String()
	if es, ok := e.(*EStr); ok {
		name = es.Val
	}
	if _, ok := vc.heapSort[name]; ok {
		return name
	}
	for _, k := range sortedKeys(vc.heapSort) {
		if strings.HasSuffix(k, "."+name) || strings.HasSuffix(k, "/"+name) {
			return k
		}
	}
	// not seen yet: try struct types of the repository
	if i := strings.LastIndex(name, "."); i > 0 {
		if t := vc.prog.typeByName(name[:i]); t != nil {
			if st, ok := t.Underlying().(*types.Struct); ok {
				for j := 0; j < st.NumFields(); j++ {
					if st.Field(j).Name() == name[i+1:] {
						k := fieldKey(t, j)
						vc.heapKeySort(k, st.Field(j).Type())
						return k
					}
				}
			}
		}
	}
	if name == "[]uint8" {
		vc.heapKeySort(name, types.Typ[types.Byte])
	}
	if name == "#closed" {
		vc.heapKeySort(name, types.Typ[types.Bool])
	}
	return name
}

// localChanSingleClose: fv is a captured local channel variable of the parent function that never
// escapes (its loads are only received from, selected on or closed) and cl is the only close of it.
func (vc *VC) localChanSingleClose(fv *ssa.FreeVar, cl *ssa.CallCommon) bool {
	fn := vc.fn
	parent := fn.Parent()
	if parent == nil {
		return false
	}
	// parent must be loop-free so that the channel/closure pair is created once per activation
	for _, b := range parent.Blocks {
		for _, s := range b.Succs {
			if s.Dominates(b) {
				return false
			}
		}
	}
	idx := -1
	for i, f := range fn.FreeVars {
		if f == fv {
			idx = i
		}
	}
	var al *ssa.Alloc
	nmc := 0
	for _, b := range parent.Blocks {
		for _, ins := range b.Instrs {
			if mc, ok := ins.(*ssa.MakeClosure); ok && mc.Fn == ssa.Value(fn) && idx >= 0 && idx < len(mc.Bindings) {
				nmc++
				al, _ = mc.Bindings[idx].(*ssa.Alloc)
				if al != nil && !singleStoreBefore(al, mc) {
					return false
				}
			}
		}
	}
	if al == nil || nmc != 1 {
		return false
	}
	closes := 0
	ok := true
	var visitLoads func(refs []ssa.Instruction, depth int)
	visitLoads = func(refs []ssa.Instruction, depth int) {
		for _, r := range refs {
			switch u := r.(type) {
			case *ssa.Store, *ssa.DebugRef:
			case *ssa.UnOp:
				if u.Op != token.MUL {
					ok = false
					continue
				}
				for _, r2 := range *u.Referrers() {
					switch w := r2.(type) {
					case *ssa.DebugRef, *ssa.Select:
					case *ssa.UnOp:
						if w.Op != token.ARROW {
							ok = false
						}
					case *ssa.Call:
						if bi, isB := w.Call.Value.(*ssa.Builtin); isB && bi.Name() == "close" {
							closes++
							if &w.Call != cl {
								ok = false
							}
						} else {
							ok = false
						}
					default:
						ok = false
					}
				}
			case *ssa.MakeClosure:
				inner := u.Fn.(*ssa.Function)
				if depth > 2 {
					ok = false
					continue
				}
				for i, b := range u.Bindings {
					if (b == ssa.Value(al) || depth > 0) && i < len(inner.FreeVars) {
						if b == ssa.Value(al) || isFreeVarOf(b, refs) {
							visitLoads(*inner.FreeVars[i].Referrers(), depth+1)
						}
					}
				}
			default:
				ok = false
			}
		}
	}
	visitLoads(*al.Referrers(), 0)
	return ok && closes == 1
}

func isFreeVarOf(v ssa.Value, _ []ssa.Instruction) bool {
	_, ok := v.(*ssa.FreeVar)
	return ok
}

// hintsAtCall applies the hints (unfold / use lemma / assume) placed "@before:<callee>" or
// "@after:<callee>" in the state st.
func (vc *VC) hintsAtCall(prefix, key string, fn *ssa.Function, st *State) {
	if vc.fc == nil {
		return
	}
	seen := map[string]bool{}
	for _, h := range vc.fc.Hints {
		if !strings.HasPrefix(h.At, prefix) || seen[h.At] {
			continue
		}
		sub := h.At[len(prefix):]
		if !strings.Contains(key, sub) && !(fn != nil && strings.Contains(fn.String(), sub)) {
			continue
		}
		seen[h.At] = true
		henv := vc.newEnv(st, vc.entrySt)
		// hints placed before a call may speak about its arguments: arg0, arg1, ...
		for j, a := range vc.hintArgs {
			henv.vars[fmt.Sprintf("arg%d", j)] = a
		}
		if vc.lastResult != nil {
			henv.vars["lastresult"] = *vc.lastResult
			for i, t := range vc.lastResult.Tup {
				henv.vars[fmt.Sprintf("lastresult%d", i)] = t
			}
		}
		vc.applyHints(-1, h.At, henv)
	}
}
