not_applicable = {}
claimed['C12'] = dict(ref="DESIGN.md 3/C12",
  text="Unbounded proof (all keys of every length) that crc16 returns the bitwise CRC16/XMODEM fold (table-step lemma over all 2^24 (state,byte) pairs + loop invariant) and that hashtag implements the first-'{' / first-'}' rule; slot = crc & 16383 checked at chooseHost.",
  note="Assumes: go/ssa faithful to the compiler; crc16tab is never written (whole-module scan of stores on every run); the spec functions crcfold/firstfrom/tagopen/tagclose are a transcription of the Redis Cluster specification (HASH_SLOT); backends implement the same specification.")
claimed['C17'] = dict(ref="DESIGN.md 3/C17",
  text="Bit-vector proof for every received length n in [0,4096] and every header that readMessage never panics and accepts a frame only if its declared payload lies inside the received bytes; sendMessage lays out type, big-endian length and payload exactly; length bytes round-trip (lemma).",
  note="Assumes the contracts of net.UnixConn.ReadMsgUnix/WriteMsgUnix (0<=n<=len(b); only b[0:n) meaningful) and that json.Marshal of the eight empty payload structs is short. Dispatch order/acknowledgement of handleChild and the vanished-child liveness clause are not decided by these contracts.")
