package main

// Contract expression language: lexer, AST, recursive-descent parser.
//
// Grammar (lowest to highest precedence):
//   quant  := ("forall"|"exists") binders "::" quant | iff
//   iff    := imp ("<==>" imp)*
//   imp    := or ("==>" imp)?            (right assoc)
//   or     := and ("||" and)*
//   and    := cmp ("&&" cmp)*
//   cmp    := bor (("=="|"!="|"<"|"<="|">"|">=") bor)?
//   bor    := add (("|"|"^") add)*       (Go precedence: | ^ with + -)
//   add    := mul (("+"|"-") mul)*
//   mul    := unary (("*"|"/"|"%"|"<<"|">>"|"&"|"&^") unary)*
//   unary  := ("!"|"-"|"^") unary | postfix
//   postfix:= primary ( "." ident | "[" e "]" | "[" e? ":" e? "]" | "(" args ")" )*
//   primary:= ident | number | char | string | "(" quant ")"

import (
	"fmt"
	"strconv"
	"strings"
	"unicode"
)

type Expr interface{ String() string }

type (
	EIdent struct{ Name string }
	EInt   struct{ Val string } // decimal text (may be large)
	EStr   struct{ Val string }
	EBool  struct{ Val bool }
	EUn    struct {
		Op string
		X  Expr
	}
	EBin struct {
		Op   string
		X, Y Expr
	}
	ESel struct {
		X    Expr
		Name string
	}
	EIndex struct{ X, I Expr }
	ESlice struct{ X, Lo, Hi Expr }
	ECall  struct {
		Fn   string
		Args []Expr
	}
	EQuant struct {
		Forall   bool
		Vars     []Binder
		Body     Expr
		Triggers [][]Expr
	}
)

type Binder struct {
	Name string
	Type string // Go-ish type text
}

func (e *EIdent) String() string { return e.Name }
func (e *EInt) String() string   { return e.Val }
func (e *EStr) String() string   { return strconv.Quote(e.Val) }
func (e *EBool) String() string  { return fmt.Sprint(e.Val) }
func (e *EUn) String() string    { return e.Op + e.X.String() }
func (e *EBin) String() string   { return "(" + e.X.String() + " " + e.Op + " " + e.Y.String() + ")" }
func (e *ESel) String() string   { return e.X.String() + "." + e.Name }
func (e *EIndex) String() string { return e.X.String() + "[" + e.I.String() + "]" }
func (e *ESlice) String() string {
	lo, hi := "", ""
	if e.Lo != nil {
		lo = e.Lo.String()
	}
	if e.Hi != nil {
		hi = e.Hi.String()
	}
	return e.X.String() + "[" + lo + ":" + hi + "]"
}
func (e *ECall) String() string {
	var a []string
	for _, x := range e.Args {
		a = append(a, x.String())
	}
	return e.Fn + "(" + strings.Join(a, ", ") + ")"
}
func (e *EQuant) String() string {
	q := "exists"
	if e.Forall {
		q = "forall"
	}
	var v []string
	for _, b := range e.Vars {
		v = append(v, b.Name+" "+b.Type)
	}
	return "(" + q + " " + strings.Join(v, ", ") + " :: " + e.Body.String() + ")"
}

type lexTok struct {
	kind string // id num str chr op eof
	text string
}

type lexer struct {
	src  string
	pos  int
	toks []lexTok
}

var ops3 = []string{"<==>"}
var ops = []string{"==>", "&&", "||", "==", "!=", "<=", ">=", "<<", ">>", "&^", "::"}

func lex(src string) ([]lexTok, error) {
	var toks []lexTok
	i := 0
	for i < len(src) {
		c := src[i]
		switch {
		case c == ' ' || c == '\t':
			i++
		case unicode.IsLetter(rune(c)) || c == '_':
			j := i
			for j < len(src) && (unicode.IsLetter(rune(src[j])) || unicode.IsDigit(rune(src[j])) || src[j] == '_' || src[j] == '$') {
				j++
			}
			toks = append(toks, lexTok{"id", src[i:j]})
			i = j
		case unicode.IsDigit(rune(c)):
			j := i
			for j < len(src) && (unicode.IsDigit(rune(src[j])) || unicode.IsLetter(rune(src[j])) || src[j] == '_') {
				j++
			}
			toks = append(toks, lexTok{"num", src[i:j]})
			i = j
		case c == '\'':
			j := i + 1
			for j < len(src) && src[j] != '\'' {
				if src[j] == '\\' {
					j++
				}
				j++
			}
			if j >= len(src) {
				return nil, fmt.Errorf("unterminated char literal")
			}
			r, _, _, err := strconv.UnquoteChar(src[i+1:j], '\'')
			if err != nil {
				return nil, err
			}
			toks = append(toks, lexTok{"num", strconv.Itoa(int(r))})
			i = j + 1
		case c == '"':
			j := i + 1
			for j < len(src) && src[j] != '"' {
				if src[j] == '\\' {
					j++
				}
				j++
			}
			if j >= len(src) {
				return nil, fmt.Errorf("unterminated string literal")
			}
			s, err := strconv.Unquote(src[i : j+1])
			if err != nil {
				return nil, err
			}
			toks = append(toks, lexTok{"str", s})
			i = j + 1
		default:
			matched := false
			for _, o := range ops3 {
				if strings.HasPrefix(src[i:], o) {
					toks = append(toks, lexTok{"op", o})
					i += len(o)
					matched = true
					break
				}
			}
			if matched {
				continue
			}
			for _, o := range ops {
				if strings.HasPrefix(src[i:], o) {
					toks = append(toks, lexTok{"op", o})
					i += len(o)
					matched = true
					break
				}
			}
			if matched {
				continue
			}
			if strings.ContainsRune("+-*/%&|^!<>()[].,:{}", rune(c)) {
				toks = append(toks, lexTok{"op", string(c)})
				i++
				continue
			}
			return nil, fmt.Errorf("unexpected character %q at %d in %q", c, i, src)
		}
	}
	toks = append(toks, lexTok{"eof", ""})
	return toks, nil
}

type exprParser struct {
	toks []lexTok
	p    int
}

func ParseExpr(src string) (e Expr, err error) {
	toks, err := lex(src)
	if err != nil {
		return nil, err
	}
	ps := &exprParser{toks: toks}
	defer func() {
		if r := recover(); r != nil {
			if pe, ok := r.(parseErr); ok {
				err = fmt.Errorf("parse error in %q: %s", src, string(pe))
				return
			}
			panic(r)
		}
	}()
	e = ps.quant()
	if ps.peek().kind != "eof" {
		ps.fail("trailing tokens starting at %q", ps.peek().text)
	}
	return e, nil
}

type parseErr string

func (p *exprParser) fail(f string, a ...interface{}) { panic(parseErr(fmt.Sprintf(f, a...))) }
func (p *exprParser) peek() lexTok                     { return p.toks[p.p] }
func (p *exprParser) next() lexTok                     { t := p.toks[p.p]; p.p++; return t }
func (p *exprParser) isOp(s string) bool              { t := p.peek(); return t.kind == "op" && t.text == s }
func (p *exprParser) accept(s string) bool {
	if p.isOp(s) {
		p.p++
		return true
	}
	return false
}
func (p *exprParser) expect(s string) {
	if !p.accept(s) {
		p.fail("expected %q, got %q", s, p.peek().text)
	}
}

// parseType consumes a Go-ish type: [*] | [] | map[K]V | ident(.ident)
func (p *exprParser) parseType() string {
	var sb strings.Builder
	for {
		if p.accept("*") {
			sb.WriteString("*")
			continue
		}
		if p.isOp("[") {
			p.next()
			p.expect("]")
			sb.WriteString("[]")
			continue
		}
		break
	}
	t := p.next()
	if t.kind != "id" {
		p.fail("expected type name, got %q", t.text)
	}
	if t.text == "map" {
		p.expect("[")
		k := p.parseType()
		p.expect("]")
		v := p.parseType()
		sb.WriteString("map[" + k + "]" + v)
		return sb.String()
	}
	sb.WriteString(t.text)
	for p.isOp(".") {
		p.next()
		t2 := p.next()
		sb.WriteString("." + t2.text)
	}
	return sb.String()
}

func (p *exprParser) quant() Expr {
	t := p.peek()
	if t.kind == "id" && (t.text == "forall" || t.text == "exists") {
		p.next()
		var bs []Binder
		for {
			var names []string
			n := p.next()
			if n.kind != "id" {
				p.fail("expected binder name")
			}
			names = append(names, n.text)
			// allow "i, j int"
			for p.isOp(",") {
				// lookahead: name followed by type or another comma
				p.next()
				n2 := p.next()
				if n2.kind != "id" {
					p.fail("expected binder name")
				}
				names = append(names, n2.text)
			}
			ty := p.parseType()
			for _, nm := range names {
				bs = append(bs, Binder{nm, ty})
			}
			if p.accept("::") {
				break
			}
			p.expect(",")
		}
		// optional explicit triggers: {e1, e2} {e3} ... (each group is one multi-pattern)
		var trigs [][]Expr
		for p.isOp("{") {
			p.next()
			var g []Expr
			for {
				g = append(g, p.iff())
				if p.isOp(",") {
					p.next()
					continue
				}
				break
			}
			p.expect("}")
			trigs = append(trigs, g)
		}
		body := p.quant()
		return &EQuant{Forall: t.text == "forall", Vars: bs, Body: body, Triggers: trigs}
	}
	return p.iff()
}

func (p *exprParser) iff() Expr {
	x := p.imp()
	for p.accept("<==>") {
		y := p.imp()
		x = &EBin{"<==>", x, y}
	}
	return x
}

func (p *exprParser) imp() Expr {
	x := p.or()
	if p.accept("==>") {
		var y Expr
		if t := p.peek(); t.kind == "id" && (t.text == "forall" || t.text == "exists") {
			y = p.quant()
		} else {
			y = p.imp()
		}
		return &EBin{"==>", x, y}
	}
	return x
}

func (p *exprParser) or() Expr {
	x := p.and()
	for p.accept("||") {
		x = &EBin{"||", x, p.and()}
	}
	return x
}

func (p *exprParser) and() Expr {
	x := p.cmp()
	for p.accept("&&") {
		x = &EBin{"&&", x, p.cmp()}
	}
	return x
}

func (p *exprParser) cmp() Expr {
	x := p.bor()
	for _, o := range []string{"==", "!=", "<=", ">=", "<", ">"} {
		if p.accept(o) {
			return &EBin{o, x, p.bor()}
		}
	}
	return x
}

func (p *exprParser) bor() Expr { return p.add() }

func (p *exprParser) add() Expr {
	x := p.mul()
	for {
		switch {
		case p.accept("+"):
			x = &EBin{"+", x, p.mul()}
		case p.accept("-"):
			x = &EBin{"-", x, p.mul()}
		case p.accept("|"):
			x = &EBin{"|", x, p.mul()}
		case p.accept("^"):
			x = &EBin{"^", x, p.mul()}
		default:
			return x
		}
	}
}

func (p *exprParser) mul() Expr {
	x := p.unary()
	for {
		matched := false
		for _, o := range []string{"*", "/", "%", "<<", ">>", "&^", "&"} {
			if p.accept(o) {
				x = &EBin{o, x, p.unary()}
				matched = true
				break
			}
		}
		if !matched {
			return x
		}
	}
}

func (p *exprParser) unary() Expr {
	for _, o := range []string{"!", "-", "^"} {
		if p.accept(o) {
			return &EUn{o, p.unary()}
		}
	}
	return p.postfix()
}

func (p *exprParser) postfix() Expr {
	x := p.primary()
	for {
		switch {
		case p.accept("."):
			t := p.next()
			if t.kind != "id" {
				p.fail("expected field name after '.'")
			}
			// qualified call: pkg.Fn(args) or method-ish: treat x.name(args) as call "x.name"
			if p.isOp("(") {
				if id, ok := x.(*EIdent); ok {
					p.next()
					args := p.args()
					x = &ECall{Fn: id.Name + "." + t.text, Args: args}
					continue
				}
			}
			x = &ESel{x, t.text}
		case p.accept("["):
			var lo, hi Expr
			if p.accept(":") {
				if !p.isOp("]") {
					hi = p.quant()
				}
				p.expect("]")
				x = &ESlice{x, nil, hi}
				continue
			}
			lo = p.quant()
			if p.accept(":") {
				if !p.isOp("]") {
					hi = p.quant()
				}
				p.expect("]")
				x = &ESlice{x, lo, hi}
				continue
			}
			p.expect("]")
			x = &EIndex{x, lo}
		default:
			return x
		}
	}
}

func (p *exprParser) args() []Expr {
	var args []Expr
	if p.accept(")") {
		return args
	}
	for {
		args = append(args, p.quant())
		if p.accept(")") {
			return args
		}
		p.expect(",")
	}
}

func (p *exprParser) primary() Expr {
	t := p.next()
	switch t.kind {
	case "num":
		s := strings.ReplaceAll(t.text, "_", "")
		if strings.HasPrefix(s, "0x") || strings.HasPrefix(s, "0X") {
			v, err := strconv.ParseUint(s[2:], 16, 64)
			if err != nil {
				p.fail("bad hex literal %s", t.text)
			}
			return &EInt{strconv.FormatUint(v, 10)}
		}
		for _, c := range s {
			if !unicode.IsDigit(c) {
				p.fail("bad number %s", t.text)
			}
		}
		return &EInt{s}
	case "str":
		return &EStr{t.text}
	case "id":
		if t.text == "forall" || t.text == "exists" {
			p.p--
			return p.quant()
		}
		if t.text == "true" {
			return &EBool{true}
		}
		if t.text == "false" {
			return &EBool{false}
		}
		if p.isOp("(") {
			p.next()
			return &ECall{Fn: t.text, Args: p.args()}
		}
		return &EIdent{t.text}
	case "op":
		if t.text == "(" {
			e := p.quant()
			p.expect(")")
			return e
		}
	}
	p.fail("unexpected token %q", t.text)
	return nil
}
