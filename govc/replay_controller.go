package main

import "strings"

func init() {
	replayGens["controller.(*Controller).handleEvent"] = replayEndpointEventOrder
}

// the store's delta for an address listed both as removed and as added is "remove it, then add it"
// (the endpoint stays); the controller applies the additions first and the removals last
func replayEndpointEventOrder(rc *ReplayCtx) (string, string, string, bool) {
	if rc.o.Kind != "post" || !strings.Contains(rc.o.Name, "removals-first") {
		return "", "", "", false
	}
	src := `package controller

import (
	"testing"

	"github.com/samaritan-proxy/samaritan/config"
	"github.com/samaritan-proxy/samaritan/host"
	"github.com/samaritan-proxy/samaritan/pb/common"
	"github.com/samaritan-proxy/samaritan/pb/config/service"
	"github.com/samaritan-proxy/samaritan/proc"
)

type govcRecProc struct {
	proc.Proc
	name  string
	hosts map[string]bool
}

func (p *govcRecProc) Name() string { return p.name }
func (p *govcRecProc) Start() error { return nil }
func (p *govcRecProc) Stop() error  { return nil }
func (p *govcRecProc) OnSvcHostAdd(hs []*host.Host) error {
	for _, h := range hs {
		p.hosts[h.Addr] = true
	}
	return nil
}
func (p *govcRecProc) OnSvcHostRemove(hs []*host.Host) error {
	for _, h := range hs {
		delete(p.hosts, h.Addr)
	}
	return nil
}

func TestGovcReplayEndpointEventOrder(t *testing.T) {
	old := newProc
	defer func() { newProc = old }()
	var rp *govcRecProc
	newProc = func(name string, cfg *service.Config, hosts []*host.Host) (proc.Proc, error) {
		rp = &govcRecProc{name: name, hosts: map[string]bool{}}
		for _, h := range hosts {
			rp.hosts[h.Addr] = true
		}
		return rp, nil
	}
	c, _ := New(nil)
	ep := &service.Endpoint{Address: &common.Address{Ip: "10.0.0.1", Port: 80}}
	c.handleEvent(&config.SvcAddEvent{Name: "svc", Config: getTestSvcConf(), Endpoints: []*service.Endpoint{ep}})
	if rp == nil || !rp.hosts["10.0.0.1:80"] {
		t.Skip("processor not created")
	}
	// what the store emits for an endpoint update listing 10.0.0.1:80 both as removed and as added:
	// it removes the endpoint, then adds it again, so the service still has it
	c.handleEvent(&config.SvcEndpointEvent{Name: "svc", Added: []*service.Endpoint{ep}, Removed: []*service.Endpoint{ep}})
	if !rp.hosts["10.0.0.1:80"] {
		t.Fatalf("REPLAY-VIOLATION the service still lists endpoint 10.0.0.1:80 (removed then added by the store) but the processor lost the host: the controller applied the additions before the removals")
	}
}
`
	return "controller", "TestGovcReplayEndpointEventOrder", src, true
}
