#!/usr/bin/env python3
"""selftest.py <property-id>: thorough-tier sensitivity check. Applies every must-fail change known for the
property (sed mutants in /verif/mutants/<id>.txt, confirmed seeds in /verif/seeded/*/) to a scratch copy
of /repo's working tree and requires the property's check to report a violation on it. Results are added to
/verif/evidence/<id>.json under coverage.selftest; a missed change is printed as SELFTEST-MISS (it means
the check is weaker than believed, not that the property is violated: the exit code is not affected)."""
import sys, os, subprocess, json, tempfile, shutil, glob
pid = sys.argv[1]
V = '/verif'
env = dict(os.environ, GOFLAGS='-mod=mod', GOPROXY='off', GOSUMDB='off', GOTOOLCHAIN='local')
cases = []
mf = f'{V}/mutants/{pid}.txt'
if os.path.exists(mf):
    for ln in open(mf):
        ln = ln.rstrip('\n')
        if not ln.strip() or ln.startswith('#'):
            continue
        f, expr, note = (ln.split('\t') + ['', ''])[:3]
        cases.append(('mutant', note or expr, f, expr))
for d in sorted(glob.glob(f'{V}/seeded/*')):
    try:
        m = json.load(open(d + '/meta.json'))
    except Exception:
        continue
    if m.get('property') == pid and os.path.exists(d + '/patch.diff'):
        cases.append(('seed', os.path.basename(d), d + '/patch.diff', None))
res = []
for kind, name, a, b in cases:
    tmp = tempfile.mkdtemp(prefix='govc-selftest-', dir='/var/tmp')
    try:
        subprocess.run(['rsync', '-a', '--exclude', '.git', '/repo/', tmp + '/'], check=True)
        if kind == 'mutant':
            before = open(os.path.join(tmp, a)).read()
            subprocess.run(['sed', '-i', b, os.path.join(tmp, a)], check=True)
            if open(os.path.join(tmp, a)).read() == before:
                res.append({'kind': kind, 'name': name, 'detected': False, 'note': 'the edit does not apply to the current source'})
                continue
        else:
            r = subprocess.run(['git', 'apply', a], cwd=tmp, capture_output=True, text=True)
            if r.returncode != 0:
                res.append({'kind': kind, 'name': name, 'detected': False, 'note': 'patch does not apply to the current source'})
                continue
        r = subprocess.run([f'{V}/bin/govc', 'check', '-prop', pid, '-repo', tmp, '-no-evidence', '-tier', 'quick'],
                           capture_output=True, text=True, env=env)
        nv = sum(1 for l in r.stdout.splitlines() if l.startswith('VIOLATION'))
        res.append({'kind': kind, 'name': name, 'detected': r.returncode == 1 and nv > 0, 'violations': nv})
    finally:
        shutil.rmtree(tmp, ignore_errors=True)
det = sum(1 for r in res if r['detected'])
print(f'SELFTEST property={pid} must-fail changes detected {det}/{len(res)}')
for r in res:
    if not r['detected']:
        print(f"SELFTEST-MISS property={pid} {r['kind']} {r['name']} {r.get('note','')}")
ev = f'{V}/evidence/{pid}.json'
try:
    d = json.load(open(ev))
    d['coverage']['selftest'] = {'must_fail_changes': len(res), 'detected': det, 'cases': res,
        'explanation': 'each case is a behaviour-breaking edit applied to a scratch copy of the working tree; detected = the check exits 1 with a VIOLATION line on it'}
    json.dump(d, open(ev, 'w'), indent=1)
except Exception as e:
    print('selftest: evidence not updated:', e)
